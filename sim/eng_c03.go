package sim

import (
	"fmt"
	"path"
	"sort"
	"strings"

	"github.com/hack-pad/hackpadfs"
	"github.com/hack-pad/hackpadfs/mem"
	"github.com/hack-pad/hackpadfs/mount"
)

// treeInvariants evaluates the well-formedness invariants of C03 over the closure of candidate paths.
// It returns the first broken invariant as (kind, detail), or "" if all hold.
func treeInvariants(fs hackpadfs.FS, probe []string) (string, string) {
	info, err := hackpadfs.Stat(fs, ".")
	if err != nil {
		return "root-missing", fmt.Sprintf("Stat(.) fails: %v", err)
	}
	if !info.IsDir() {
		return "root-not-dir", "Stat(.) is not a directory"
	}
	listed := map[string]bool{} // path -> isDir per listing
	seen := map[string]bool{}
	var walk func(dir string, depth int) (string, string)
	walk = func(dir string, depth int) (string, string) {
		if depth > 8 {
			return "too-deep", dir
		}
		ents, err := hackpadfs.ReadDir(fs, dir)
		if err != nil {
			return "listing-fails", fmt.Sprintf("ReadDir(%q) of a directory fails: %v", dir, err)
		}
		names := map[string]bool{}
		for _, e := range ents {
			if names[e.Name()] {
				return "duplicate-in-listing", fmt.Sprintf("%q appears twice in the listing of %q", e.Name(), dir)
			}
			names[e.Name()] = true
			p := path.Join(dir, e.Name())
			seen[p] = true
			listed[p] = e.IsDir()
			st, err := hackpadfs.Stat(fs, p)
			if err != nil {
				return "listed-not-statable", fmt.Sprintf("%q is listed in %q but Stat fails: %v", p, dir, err)
			}
			if st.IsDir() != e.IsDir() {
				return "kind-disagrees", fmt.Sprintf("%q: listing says dir=%v, Stat says dir=%v", p, e.IsDir(), st.IsDir())
			}
			f, err := fs.Open(p)
			if err != nil {
				return "listed-not-openable", fmt.Sprintf("%q is listed in %q but Open fails: %v", p, dir, err)
			}
			hst, err := f.Stat()
			f.Close()
			if err != nil {
				return "handle-stat-fails", fmt.Sprintf("%q: Stat on the opened handle fails: %v", p, err)
			}
			if hst.IsDir() != e.IsDir() {
				return "kind-disagrees", fmt.Sprintf("%q: listing says dir=%v, opened handle says dir=%v", p, e.IsDir(), hst.IsDir())
			}
			if e.IsDir() {
				if k, d := walk(p, depth+1); k != "" {
					return k, d
				}
			}
		}
		return "", ""
	}
	if k, d := walk(".", 0); k != "" {
		return k, d
	}
	// closure: every path Stat or Open accepts must have been reached through listings
	for _, p := range probe {
		if seen[p] {
			continue
		}
		_, serr := hackpadfs.Stat(fs, p)
		f, oerr := fs.Open(p)
		if oerr == nil {
			f.Close()
		}
		if serr == nil || oerr == nil {
			parent := path.Dir(p)
			pst, perr := hackpadfs.Stat(fs, parent)
			switch {
			case perr != nil:
				return "orphan", fmt.Sprintf("%q is accepted by Stat/Open but its parent %q does not exist", p, parent)
			case !pst.IsDir():
				return "child-of-non-directory", fmt.Sprintf("%q is accepted by Stat/Open but its parent %q is not a directory", p, parent)
			default:
				return "hidden-entry", fmt.Sprintf("%q is accepted by Stat/Open (stat err=%v, open err=%v) but the listing of %q does not contain it", p, serr, oerr, parent)
			}
		}
	}
	return "", ""
}

// storeInvariants inspects the SimStore's key set directly.
func storeInvariants(st *SimStore) (string, string) {
	if st == nil {
		return "", ""
	}
	for _, k := range st.keys() {
		if k == "." {
			continue
		}
		parent := path.Dir(k)
		pr, ok := st.recs[parent]
		if !ok {
			return "store-orphan-key", fmt.Sprintf("store holds key %q but no record for its parent %q", k, parent)
		}
		if !pr.mode.IsDir() {
			return "store-key-below-file", fmt.Sprintf("store holds key %q below the regular file %q", k, parent)
		}
	}
	if r, ok := st.recs["."]; !ok || !r.mode.IsDir() {
		return "store-root-missing", "store holds no directory record for '.'"
	}
	return "", ""
}

// c03Stack builds the file system stack for a C03 trial.
func c03Family(kind int) string {
	return []string{"mem", "kv", "kv", "mount", "mount", "sub"}[kind]
}

// c03Avoid: regions of open known findings.
func c03Avoid(t *T, kind int, o Op) bool {
	isRm := o.Kind == "Remove" || o.Kind == "RemoveAll"
	switch c03Family(kind) {
	case "mount":
		points := []string{"a"}
		if kind == 4 {
			points = []string{"a", "b/c"}
		}
		if isRm || o.Kind == "Rename" {
			for _, m := range points {
				if o.P == "." || strings.HasPrefix(m, o.P+"/") {
					return t.Avoid("mutate-ancestor-of-mount-point")
				}
			}
		}
	case "sub":
		if isRm && o.P == "." {
			return t.Avoid("remove-root-of-sub-view")
		}
	}
	return false
}

func c03Stack(t *T, kind int) (fs hackpadfs.FS, st *SimStore, desc string) {
	switch kind {
	case 0, 1, 2:
		fs, st = newSUT(t, kind)
		return fs, st, sutName(kind)
	case 3, 4:
		root, _ := mem.NewFS()
		mfs, _ := mount.NewFS(root)
		points := []string{"a"}
		if kind == 3 && t.C.Chance(1, 2) {
			// a second mount point whose name extends the first one's by a byte that sorts below '/'
			points = []string{"a", "a.x"}
			must(t, root.Mkdir("a.x", 0755))
		}
		if kind == 4 {
			points = []string{"a", "b/c"}
			must(t, root.MkdirAll("b/c", 0755))
		}
		must(t, root.Mkdir("a", 0755))
		for _, p := range points {
			m, _ := mem.NewFS()
			must(t, mfs.AddMount(p, m))
		}
		return mfs, nil, fmt.Sprintf("mount.FS(mem; mounts %v)", points)
	default:
		base, _ := mem.NewFS()
		must(t, base.MkdirAll("a", 0755))
		sub, err := hackpadfs.Sub(base, "a")
		must(t, err)
		return sub, nil, "Sub(mem, a)"
	}
}

func must(t *T, err error) {
	if err != nil {
		t.Infra("setup: %v", err)
	}
}

// c03HeldHandle: the history "open a file, remove it, make a directory (with a child) under the same name, write
// through the handle that is still open". A write through a handle is an operation like any other: afterwards
// every path Stat accepts still has a directory as parent.
func c03HeldHandle(t *T, kind int) {
	c := t.C
	fs, st, desc := c03Stack(t, kind)
	probe := candidatePaths([]string{"a", "b", "c"}, 3)
	if c.Chance(1, 3) {
		// a directory handle read page by page while its entries go away: every call still returns
		if err := hackpadfs.MkdirAll(fs, "b", 0755); err != nil {
			return
		}
		for _, n := range []string{"b/a", "b/b", "b/c"} {
			_ = hackpadfs.WriteFullFile(fs, n, []byte("x"), 0644)
		}
		h, err := fs.Open("b")
		if err != nil {
			return
		}
		defer h.Close()
		t.Logf("mode=held-directory-handle stack=%s", desc)
		for i, n := 0, 2+c.Draw(4); i < n; i++ {
			if c.Chance(1, 2) {
				page, err := hackpadfs.ReadDirFile(h, 1+c.Draw(2))
				t.Logf("ReadDir -> %d entries, %s", len(page), errClass(err))
			} else {
				o := Op{Kind: []string{"Remove", "Rename"}[c.Draw(2)], P: []string{"b/a", "b/b", "b/c"}[c.Draw(3)], Q: "c"}
				out := applyOp(fs, o)
				t.Logf("%s -> %s", o, errClass(out.Err))
			}
			if k, d := treeInvariants(fs, probe); k != "" {
				t.Fail("invariant", "C03:"+c03Family(kind)+":"+k+":held-directory-handle", fmt.Sprintf("on %s: %s", desc, d))
			}
		}
		t.NonTrivial()
		return
	}
	dir := []string{".", "a"}[c.Draw(2)]
	if dir != "." {
		if err := hackpadfs.MkdirAll(fs, dir, 0755); err != nil {
			return
		}
	}
	name := path.Join(dir, "b")
	h, err := hackpadfs.OpenFile(fs, name, hackpadfs.FlagReadWrite|hackpadfs.FlagCreate, 0644)
	if err != nil {
		return
	}
	defer h.Close()
	t.Logf("mode=held-handle stack=%s handle on %q", desc, name)
	steps := []Op{{Kind: "Remove", P: name}, {Kind: "Mkdir", P: name, Perm: 0755}, {Kind: "Mkdir", P: name + "/c", Perm: 0755}}
	if c.Chance(1, 3) {
		steps = []Op{{Kind: "Rename", P: name, Q: path.Join(dir, "c")}, {Kind: "MkdirAll", P: name + "/c", Perm: 0755}}
	}
	for _, o := range steps {
		out := applyOp(fs, o)
		t.Logf("%s -> %s", o, errClass(out.Err))
	}
	for i, n := 0, 1+c.Draw(3); i < n; i++ {
		o := hOp{Kind: []string{"Write", "WriteAt", "Truncate", "Chmod"}[c.Draw(4)], Data: []byte("zz"), Off: int64(c.Draw(4)), Perm: 0600}
		res := callHandle(h, o)
		t.Logf("handle %s -> %s", o.Kind, errClass(res.err))
		if k, d := treeInvariants(fs, probe); k != "" {
			t.Fail("invariant", "C03:"+c03Family(kind)+":"+k+":stale-handle-"+o.Kind, fmt.Sprintf("after %s through a handle of %q, which had been removed and made again as a directory, on %s: %s", o.Kind, name, desc, d))
		}
		if k, d := storeInvariants(st); k != "" {
			t.Fail("invariant", "C03:"+c03Family(kind)+":"+k+":stale-handle-"+o.Kind, fmt.Sprintf("after %s through a handle of %q, which had been removed and made again as a directory, on %s: %s", o.Kind, name, desc, d))
		}
	}
	t.NonTrivial()
}

// c03StaleHandleProbe: the fixed form of the held-handle history, on mem.
func c03StaleHandleProbe(t *T) {
	defer beginTrial(t, false)()
	fs, st, desc := c03Stack(t, 0)
	probe := candidatePaths([]string{"a", "b", "c"}, 3)
	h, err := hackpadfs.OpenFile(fs, "b", hackpadfs.FlagReadWrite|hackpadfs.FlagCreate, 0644)
	must(t, err)
	defer h.Close()
	must(t, hackpadfs.Remove(fs, "b"))
	must(t, hackpadfs.Mkdir(fs, "b", 0755))
	must(t, hackpadfs.Mkdir(fs, "b/c", 0755))
	callHandle(h, hOp{Kind: "Write", Data: []byte("zz")})
	if k, d := treeInvariants(fs, probe); k != "" {
		t.Fail("invariant", "C03:mem:"+k+":stale-handle-Write", fmt.Sprintf("on %s: %s", desc, d))
	}
	if k, d := storeInvariants(st); k != "" {
		t.Fail("invariant", "C03:mem:"+k+":stale-handle-Write", d)
	}
}

func runC03(t *T) {
	c := t.C
	kind := c.Draw(6)
	defer beginTrial(t, true)()
	if kind != 4 && c.Chance(1, 12) {
		c03HeldHandle(t, kind)
		return
	}
	fs, st, desc := c03Stack(t, kind)
	alpha := []string{"a", "b", "c"}
	if c.Chance(1, 4) && kind != 4 { // (kind 4 mounts at b/c and needs the name c)
		alpha = [][]string{{"a", "ab", "b"}, {"a", "a.x", "b"}}[c.Draw(2)]
	}
	probe := candidatePaths(alpha, 3)
	g := newFsGen(t, alpha, 3)
	n := 1 + c.Draw(20)
	t.Logf("stack=%s steps=%d", desc, n)
	snap := takeSnapshot(fs, snapOpts{NoContent: true})
	g.observe(snap)
	muts := 0
	faultsLeft := 0
	if st != nil && c.Chance(1, 2) {
		faultsLeft = 1 + c.Draw(3)
	}
	for i := 0; i < n; i++ {
		o := g.next()
		if c03Avoid(t, kind, o) {
			continue
		}
		sig := opSig(o, snap)
		// over the simulated store, one call in six runs with a store fault armed: an operation that fails half
		// way ("successful or failed") still must not leave an entry without a parent
		var plan *faultPlan
		if st != nil && faultsLeft > 0 && o.Mutating() && (c.Chance(1, 4) || ((o.Kind == "Rename" || o.Kind == "RemoveAll" || o.Kind == "MkdirAll") && c.Chance(1, 2))) {
			// (multi-step operations - Rename of a directory, RemoveAll, MkdirAll - are where a half-done state can be left)
			faultsLeft--
			plan = &faultPlan{t: t, at: c.Draw(8), kind: []string{"Set", "Get", ""}[c.Weighted(3, 2, 1)], armed: true}
			st.plan = plan
		}
		out := applyOp(fs, o)
		if st != nil {
			st.plan = nil
		}
		if plan != nil && plan.fired > 0 {
			sig += ":store-fault=" + strings.Fields(plan.firedAt)[0]
			t.Stat("c03:operation-hit-by-store-fault")
		}
		t.Logf("%d %s -> %s", i, o, errClass(out.Err))
		if !o.Mutating() {
			continue
		}
		if k, d := treeInvariants(fs, probe); k != "" {
			t.Fail("invariant", "C03:"+c03Family(kind)+":"+k+":"+sig+":"+okFail(out.Err), fmt.Sprintf("after step %d %s (%s) on %s: %s", i, o, errClass(out.Err), desc, d))
		}
		if k, d := storeInvariants(st); k != "" {
			t.Fail("invariant", "C03:"+c03Family(kind)+":"+k+":"+sig+":"+okFail(out.Err), fmt.Sprintf("after step %d %s (%s) on %s: %s", i, o, errClass(out.Err), desc, d))
		}
		snap = takeSnapshot(fs, snapOpts{NoContent: true})
		g.observe(snap)
		t.State(snap.Text)
		if out.Err == nil {
			muts++
		}
	}
	if muts > 0 {
		t.NonTrivial()
	}
}

func c03Probe(kind int, ops ...Op) func(t *T) {
	return func(t *T) {
		defer beginTrial(t, false)()
		fs, st, desc := c03Stack(t, kind)
		probe := candidatePaths([]string{"a", "b", "c"}, 3)
		snap := takeSnapshot(fs, snapOpts{NoContent: true})
		for i, o := range ops {
			sig := opSig(o, snap)
			out := applyOp(fs, o)
			t.Logf("%d %s -> %s", i, o, errClass(out.Err))
			if k, d := treeInvariants(fs, probe); k != "" {
				t.Fail("invariant", "C03:"+c03Family(kind)+":"+k+":"+sig+":"+okFail(out.Err), fmt.Sprintf("after %s on %s: %s", o, desc, d))
			}
			if k, d := storeInvariants(st); k != "" {
				t.Fail("invariant", "C03:"+c03Family(kind)+":"+k+":"+sig+":"+okFail(out.Err), fmt.Sprintf("after %s on %s: %s", o, desc, d))
			}
			snap = takeSnapshot(fs, snapOpts{NoContent: true})
		}
	}
}

var _ = sort.Strings
var _ = strings.Join

func init() {
	RegisterProbe("c03-stale-handle-over-directory", c03StaleHandleProbe)
	RegisterProbe("c03-mount-remove-ancestor", c03Probe(4, Op{Kind: "RemoveAll", P: "b"}))
	RegisterProbe("c03-sub-remove-root", c03Probe(5, Op{Kind: "Remove", P: "."}))
	RegisterProbe("c03-remove-root", c03Probe(0, Op{Kind: "Remove", P: "."}))
	RegisterProbe("c03-mount-remove-mountpoint", c03Probe(3, Op{Kind: "Remove", P: "a"}))
	RegisterProbe("c03-rename-into-self-nonempty", c03Probe(0, opMkdir("a"), opWrite("a/b"), opRename("a", "a/c")))
	RegisterProbe("c03-mkdir-below-file", c03Probe(1, opWrite("a"), opMkdir("a/b")))
	Register(&Engine{
		Prop: "C03", Name: "fsdiff/invariants", Run: runC03,
		Trials: map[string]int{"quick": 30000, "thorough": 400000},
		Rule:   "seeded histories (1-20 steps, incl. removing/renaming the root, renaming into the own subtree, creating below regular files) on mem.FS, keyvalue.FS over sharing/copying SimStore (listing order permuted), mount.FS over 2-3 mem.FS and a Sub view; after every mutating step the tree invariants are evaluated over the closure of all paths up to depth 3 over {a,b,c} plus everything listings reveal, and over the SimStore key set; non-trivial = at least one successful mutation; distinct = event-log hash",
		Components: map[string][]string{
			"real": {"mem.FS", "keyvalue.FS", "mount.FS", "hackpadfs.Sub", "package helpers"},
			"stub": {"SimStore (keyvalue kinds)"},
		},
	})
}
