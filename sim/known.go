package sim

import (
	"encoding/json"
	"os"
)

// KnownFinding is one entry of /verif/known_findings.json (committed; never written at run time).
type KnownFinding struct {
	ID        string   `json:"id"`
	Property  string   `json:"property"`
	Status    string   `json:"status"` // open | fixed
	Commit    string   `json:"commit,omitempty"`
	Signature string   `json:"signature"` // exact, or with * wildcards
	Probe     string   `json:"probe"`     // name of a registered hand-written scenario
	Avoid     []string `json:"avoid,omitempty"`
	What      string   `json:"what"`
}

type knownFile struct {
	Findings []*KnownFinding `json:"findings"`
}

func loadKnown(path string) ([]*KnownFinding, error) {
	b, err := os.ReadFile(path)
	if err != nil {
		if os.IsNotExist(err) {
			return nil, nil
		}
		return nil, err
	}
	var f knownFile
	if err := json.Unmarshal(b, &f); err != nil {
		return nil, err
	}
	return f.Findings, nil
}
