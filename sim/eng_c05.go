package sim

import (
	"archive/tar"
	"bytes"
	"context"
	"errors"
	"fmt"
	"strings"

	"github.com/hack-pad/hackpadfs"
	"github.com/hack-pad/hackpadfs/mem"
	"github.com/hack-pad/hackpadfs/mount"
	hos "github.com/hack-pad/hackpadfs/os"
	htar "github.com/hack-pad/hackpadfs/tar"
	"github.com/hack-pad/hackpadfs/verifmt"
)

// layer stacks for the composition engines (C04, C05, C07, C16).
type layerStack struct {
	name     string
	family   string
	fs       hackpadfs.FS
	alpha    []string
	readOnly bool
	parts    []hackpadfs.FS // every participating FS, for "unchanged" checks
	mounts   []string       // mount points, in the stack's own namespace
	cleanup  func()
	// prefix (os.FS used without any Sub root): every name handed to fs is this directory joined with the
	// history's name; snap is the view the harness observes the tree through
	prefix string
	snap   hackpadfs.FS
}

// lsOsRoot is os.FS below zero Sub roots. Only C05 draws it (its run maps every name below the scratch directory).
const lsOsRoot = 1000

// sutOp maps a history step into the namespace the stack's FS is called in.
func (ls *layerStack) sutOp(o Op) Op {
	if ls.prefix == "" {
		return o
	}
	m := func(p string) string {
		if p == "." {
			return ls.prefix
		}
		return ls.prefix + "/" + p
	}
	o.P = m(o.P)
	if o.Kind == "Rename" {
		o.Q = m(o.Q)
	}
	return o
}

// sutErr maps the os twin's error into that namespace (its path is used as the expectation for MkdirAll/RemoveAll).
func (ls *layerStack) sutErr(err error) error {
	var pe *hackpadfs.PathError
	if ls.prefix == "" || !errors.As(err, &pe) || pe.Path == "" || strings.HasPrefix(pe.Path, "/") {
		return err
	}
	p := ls.prefix + "/" + pe.Path
	if pe.Path == "." {
		p = ls.prefix
	}
	return &hackpadfs.PathError{Op: pe.Op, Path: p, Err: pe.Err}
}

func (ls *layerStack) snapFS() hackpadfs.FS {
	if ls.snap != nil {
		return ls.snap
	}
	return ls.fs
}

const (
	lsMem = iota
	lsKV
	lsMountBare
	lsMountWrapped
	lsSubMem
	lsSubOfMountPoint
	lsSubAboveMount
	lsNestedSub
	lsOsSub0
	lsOsSub2
	lsCache
	lsTar
	lsCount
)

// mountConfig: root mem with directory m; mem mounted at m with directory n; mem mounted at m/n.
func mountConfig(t *T) (*mount.FS, []hackpadfs.FS) {
	root, _ := mem.NewFS()
	must(t, root.Mkdir("m", 0755))
	m1, _ := mem.NewFS()
	must(t, m1.Mkdir("n", 0755))
	m2, _ := mem.NewFS()
	mfs, _ := mount.NewFS(root)
	must(t, mfs.AddMount("m", m1))
	must(t, mfs.AddMount("m/n", m2))
	return mfs, []hackpadfs.FS{root, m1, m2}
}

// buildLayerStack builds stack k and prepares the os twin so that both hold the same logical tree.
func buildLayerStack(t *T, k int, ref hackpadfs.FS) *layerStack {
	ls := &layerStack{alpha: []string{"a", "b", "c"}, cleanup: func() {}}
	switch k {
	case lsMem:
		fs, _ := newSUT(t, sutMem)
		ls.name, ls.family, ls.fs, ls.parts = "mem", "mem", fs, []hackpadfs.FS{fs}
	case lsKV:
		fs, _ := newSUT(t, sutKVShared)
		ls.name, ls.family, ls.fs, ls.parts = "keyvalue+SimStore", "kv", fs, []hackpadfs.FS{fs}
	case lsMountBare, lsMountWrapped:
		mfs, parts := mountConfig(t)
		must(t, hackpadfs.MkdirAll(ref, "m/n", 0755))
		ls.alpha = []string{"m", "n", "a"}
		ls.parts = parts
		ls.family = "mount"
		ls.mounts = []string{"m", "m/n"}
		if k == lsMountBare {
			ls.name, ls.fs = "mount.FS+helpers", mfs
		} else {
			ls.name, ls.fs = "mounttest(mount.FS)", verifmt.NewFS(mfs)
		}
	case lsSubMem:
		base, _ := mem.NewFS()
		must(t, base.Mkdir("base", 0755))
		sub, err := hackpadfs.Sub(base, "base")
		must(t, err)
		ls.name, ls.family, ls.fs, ls.parts = "Sub(mem,base)", "sub", sub, []hackpadfs.FS{base}
	case lsSubOfMountPoint:
		mfs, parts := mountConfig(t)
		sub, err := hackpadfs.Sub(mfs, "m")
		must(t, err)
		must(t, hackpadfs.MkdirAll(ref, "n", 0755))
		ls.alpha = []string{"n", "a", "b"}
		ls.name, ls.family, ls.fs, ls.parts = "Sub(mount,m)", "sub-mount", sub, parts
		ls.mounts = []string{".", "n"}
	case lsSubAboveMount:
		root, _ := mem.NewFS()
		must(t, root.MkdirAll("top/m", 0755))
		m1, _ := mem.NewFS()
		mfs, _ := mount.NewFS(root)
		must(t, mfs.AddMount("top/m", m1))
		sub, err := hackpadfs.Sub(mfs, "top")
		must(t, err)
		must(t, hackpadfs.MkdirAll(ref, "m", 0755))
		ls.alpha = []string{"m", "a", "b"}
		ls.name, ls.family, ls.fs, ls.parts = "Sub(mount,top) above mount top/m", "sub-mount", sub, []hackpadfs.FS{root, m1}
		ls.mounts = []string{"m"}
	case lsNestedSub:
		base, _ := mem.NewFS()
		must(t, base.MkdirAll("x/y", 0755))
		s1, err := hackpadfs.Sub(base, "x")
		must(t, err)
		s2, err := hackpadfs.Sub(s1, "y")
		must(t, err)
		ls.name, ls.family, ls.fs, ls.parts = "Sub(Sub(mem,x),y)", "sub", s2, []hackpadfs.FS{base}
	case lsOsRoot:
		dir, cleanup := newScratch(t)
		ls.cleanup = cleanup
		view, err := hos.NewFS().Sub(strings.TrimPrefix(dir, "/"))
		must(t, err)
		ls.name, ls.family, ls.fs, ls.parts = "os.FS under no Sub root", "os", hos.NewFS(), []hackpadfs.FS{view}
		ls.prefix, ls.snap = strings.TrimPrefix(dir, "/"), view
		if t.C.Chance(1, 2) {
			// the same file system reached through a view of "." (still no directory of its own)
			dot, err := hos.NewFS().Sub(".")
			must(t, err)
			ls.name, ls.fs = "os.FS under Sub(\".\") only", dot
		}
	case lsOsSub0, lsOsSub2:
		dir, cleanup := newScratch(t)
		ls.cleanup = cleanup
		// in half of the trials every file system a Sub is taken from has reported an error before (whatever an FS
		// remembers from producing its first error must not travel into its Sub views)
		used := t.C.Chance(1, 2)
		useFirst := func(fs hackpadfs.FS) {
			if used {
				_, _ = hackpadfs.Stat(fs, "verif-missing-name")
			}
		}
		osRoot := hos.NewFS()
		useFirst(osRoot)
		fs, err := osRoot.Sub(strings.TrimPrefix(dir, "/"))
		must(t, err)
		ls.parts = []hackpadfs.FS{fs}
		ls.family = "os"
		if k == lsOsSub2 {
			must(t, hackpadfs.MkdirAll(fs, "x/y", 0755))
			useFirst(fs)
			s1, err := hackpadfs.Sub(fs, "x")
			must(t, err)
			useFirst(s1)
			s2, err := hackpadfs.Sub(s1, "y")
			must(t, err)
			ls.name, ls.fs = "os.FS under 3 Sub roots", s2
		} else {
			ls.name, ls.fs = "os.FS under 1 Sub root", fs
		}
	case lsCache:
		populate(t, ref)
		ls.name, ls.family, ls.fs, ls.readOnly = "cache", "cache", buildStack(t, stCache), true
		ls.alpha = []string{"d", "f", "e", "top"}
	case lsTar:
		populate(t, ref)
		ls.name, ls.family, ls.fs, ls.readOnly = "tar", "tar", buildStack(t, stTar), true
		ls.alpha = []string{"d", "f", "e", "top"}
	}
	return ls
}

var sevenSentinels = []struct {
	name string
	err  error
}{
	{"ErrNotExist", hackpadfs.ErrNotExist}, {"ErrExist", hackpadfs.ErrExist}, {"ErrIsDir", hackpadfs.ErrIsDir},
	{"ErrNotDir", hackpadfs.ErrNotDir}, {"ErrNotEmpty", hackpadfs.ErrNotEmpty}, {"ErrInvalid", hackpadfs.ErrInvalid},
	{"ErrClosed", hackpadfs.ErrClosed},
}

var invalidNames = []string{"", "/a", "a/", "a//b", "./a", "a/./b", "../a", "a/../b", "a/..", "\xff", "a/\xffb"}

// judgeError applies the C05 oracle to one failing call. want is the os twin's error for the same call.
func judgeError(t *T, ls *layerStack, o Op, got, want error, sig string) {
	two := o.Kind == "Rename" || o.Kind == "Symlink"
	sh := shapeOf(got)
	detail := func(msg string) string {
		return fmt.Sprintf("%s on %s: %s\n  sut error: %#v (%v)\n  os  error: %v", o, ls.name, msg, got, got, want)
	}
	base := "C05:" + ls.family + ":" + sig
	switch {
	case two && sh.Type != "LinkError":
		t.Fail("type", base+":type="+sh.Type, detail("a two-name operation must fail with *LinkError"))
	case !two && sh.Type != "PathError":
		t.Fail("type", base+":type="+sh.Type, detail("a one-name operation must fail with *PathError"))
	}
	bad := func(p string) string {
		switch {
		case p == "":
			return "empty"
		case strings.HasPrefix(p, "/"):
			return "absolute"
		}
		return ""
	}
	if errors.Is(got, hackpadfs.ErrNotImplemented) {
		return // unsupported operation: only the type and the sentinel are demanded
	}
	if two {
		// the os package names the two names passed in
		if sh.Type == "LinkError" && (sh.Old != o.P || sh.New != o.Q) {
			k := "differs"
			if b := bad(sh.Old) + bad(sh.New); b != "" && (o.P != "" && o.Q != "") {
				k = b
			}
			t.Fail("path", base+":path-"+k, detail(fmt.Sprintf("LinkError names (%q,%q), the caller passed (%q,%q)", sh.Old, sh.New, o.P, o.Q)))
		}
	} else if sh.Type == "PathError" {
		switch o.Kind {
		case "MkdirAll", "RemoveAll":
			// os may name an ancestor (MkdirAll) or a descendant (RemoveAll) of the name passed in
			wsh := shapeOf(want)
			expect := o.P
			if wsh.Type == "PathError" && bad(wsh.Path) == "" && want != nil {
				expect = wsh.Path
			}
			if sh.Path != expect && sh.Path != o.P && !(want == nil && related(sh.Path, o.P)) {
				k := "differs"
				if b := bad(sh.Path); b != "" && o.P != "" {
					k = b
				}
				t.Fail("path", base+":path-"+k, detail(fmt.Sprintf("PathError names %q; os names %q for this failure (name passed in: %q)", sh.Path, expect, o.P)))
			}
		default:
			if sh.Path != o.P && !(o.Kind == "ReadDir" && strings.HasPrefix(sh.Path, strings.TrimPrefix(o.P+"/", "./"))) {
				// (a listing may fail on one of its entries and name that entry, as os.ReadDir does)
				k := "differs"
				if b := bad(sh.Path); b != "" && o.P != "" {
					k = b
				}
				t.Fail("path", base+":path-"+k, detail(fmt.Sprintf("PathError names %q, the caller passed %q", sh.Path, o.P)))
			}
		}
	}
	if want == nil {
		return
	}
	for _, s := range sevenSentinels {
		if errors.Is(want, s.err) {
			if !errors.Is(got, s.err) {
				t.Fail("sentinel", base+":want="+s.name+":got="+errClass(got), detail("os error matches "+s.name+", the library's does not"))
			}
			break
		}
	}
}

// c05StoreFault: histories on keyvalue.FS whose store fails one call; the error of the operation in
// which the fault fired is judged for type and path (the inner-step errors of C05).
func c05StoreFault(t *T) {
	c := t.C
	kind := c.Draw(3)
	faultKind := []string{"Set", "Get", "Data", "ReadDirNames", "Transaction"}[c.Weighted(4, 3, 2, 2, 1)]
	plan := &faultPlan{t: t, kind: faultKind}
	plan.at = c.Draw(map[string]int{"Set": 6, "Get": 20, "Data": 3, "ReadDirNames": 3, "Transaction": 20}[faultKind])
	names := []string{"a", "b", "a/c", "d"}
	n := 2 + c.Draw(10)
	inBubble(t, 50000, func(s *Sched) {
		s.Go("client", func() {
			st := c14Build(t, kind, plan)
			ls := &layerStack{name: st.name, family: "kv-store-fault"}
			for _, o := range []Op{opMkdir("a"), opWrite("b")} {
				if c.Chance(1, 2) {
					applyOp(st.fs, o)
				}
			}
			plan.armed = true
			plan.calls = 0
			t.Logf("mode=store-fault stack=%s fault=%s at=%d", st.name, faultKind, plan.at)
			for i := 0; i < n; i++ {
				p := names[c.Draw(len(names))]
				var o Op
				switch c.Draw(11) {
				case 0:
					o = Op{Kind: "Mkdir", P: p, Perm: 0755}
				case 1:
					o = Op{Kind: "WriteFullFile", P: p, Perm: 0644, Data: uniqueData(i, 5)}
				case 2:
					o = Op{Kind: "Remove", P: p}
				case 3:
					o = Op{Kind: "Rename", P: p, Q: names[c.Draw(len(names))]}
				case 4:
					o = Op{Kind: "Stat", P: p}
				case 5:
					o = Op{Kind: "ReadFile", P: p}
				case 6:
					o = Op{Kind: "MkdirAll", P: p, Perm: 0700}
				case 7:
					o = Op{Kind: "Chmod", P: p, Perm: 0600}
				case 8:
					o = Op{Kind: "Chtimes", P: p, Mtime: 1e9 + int64(i)}
				case 9:
					o = Op{Kind: "OpenFile", P: p, Flag: []int{rdwr | creat, wronly | trunc, rdwr | creat | trunc, rdonly}[c.Draw(4)], Perm: 0644, Data: uniqueData(i, 3)}
				default:
					o = Op{Kind: "ReadDir", P: []string{".", p}[c.Draw(2)]}
				}
				before := plan.fired
				var out Out
				if o.Kind == "OpenFile" {
					f, err := hackpadfs.OpenFile(st.fs, o.P, o.Flag, o.Perm) // only the open itself is the FS-level operation judged here
					out.Err = err
					if err == nil {
						plan.armed = false
						f.Close()
						plan.armed = plan.fired == 0
					}
				} else {
					out = applyOp(st.fs, o)
				}
				t.Logf("%d %s -> %v", i, o, out.Err)
				if plan.fired > before {
					plan.armed = false
					if out.Err != nil {
						t.Stat("probe:store-fault-surfaced-as-error")
						sig := o.Kind + ":fault=" + strings.Fields(plan.firedAt)[0]
						judgeError(t, ls, o, out.Err, nil, sig)
						sh := shapeOf(out.Err)
						switch {
						case sh.Type == "PathError" && sh.Path != o.P && !related(sh.Path, o.P):
							t.Fail("path", "C05:kv-store-fault:"+sig+":path-unrelated", fmt.Sprintf("%s failed because the store failed (%s); the error names %q", o, plan.firedAt, sh.Path))
						}
						t.NonTrivial()
					}
					return
				}
			}
		})
		s.Run()
	})
}

func runC05(t *T) {
	c := t.C
	defer beginTrial(t, true)()
	if c.Chance(1, 5) {
		c05StoreFault(t)
		return
	}
	ref, _, cleanup := osTwin(t)
	defer cleanup()
	k := c.Draw(lsCount + 2)
	if k == lsCount {
		k = lsOsRoot
	}
	if k == lsCount+1 {
		c05FailedTar(t)
		return
	}
	ls := buildLayerStack(t, k, ref)
	defer ls.cleanup()
	g := newFsGen(t, ls.alpha, 3)
	refSnap := takeSnapshot(ref, snapOpts{NoPerm: true})
	g.observe(refSnap)
	n := 1 + c.Draw(20)
	t.Logf("stack=%s steps=%d", ls.name, n)
	judged := 0
	for i := 0; i < n; i++ {
		o := g.next()
		if c.Chance(1, 8) {
			o.P = invalidNames[c.Draw(len(invalidNames))]
		} else if o.Kind == "Rename" && c.Chance(1, 10) {
			o.Q = invalidNames[c.Draw(len(invalidNames))]
		}
		if c.Chance(1, 25) && ls.family != "os" {
			o = Op{Kind: "Symlink", P: g.path(), Q: g.path()}
		}
		if ls.readOnly && o.Mutating() && c.Chance(3, 4) {
			o = Op{Kind: []string{"Stat", "ReadDir", "ReadFile", "OpenFile"}[c.Draw(4)], P: o.P}
		}
		if (o.Kind == "Remove" || o.Kind == "RemoveAll" || o.Kind == "Rename") && (o.P == "." || o.Q == ".") {
			continue
		}
		if o.Kind == "ReadFile" && isDirIn(refSnap, o.P) && t.Avoid("readfile-of-directory") {
			continue
		}
		if c05Avoid(t, ls, o, refSnap) {
			continue
		}
		sig := opSig(Op{Kind: o.Kind, P: o.P, Q: o.Q, Flag: o.Flag & 3}, refSnap)
		so := ls.sutOp(o)
		got := applyOpX(ls.fs, so)
		if got.Err != nil && errors.Is(got.Err, hackpadfs.ErrNotImplemented) {
			t.Logf("%d %s -> sut=ErrNotImplemented (not applied to the twin)", i, o)
			judgeError(t, ls, so, got.Err, nil, sig)
			judged++
			continue
		}
		want := applyOpX(ref, o)
		t.Logf("%d %s -> sut=%s os=%s", i, o, errClass(got.Err), errClass(want.Err))
		if (got.Err == nil) != (want.Err == nil) {
			t.Stat("diverged-outcome(not judged here)")
			break
		}
		if got.Err != nil {
			judgeError(t, ls, so, got.Err, ls.sutErr(want.Err), sig)
			judged++
		}
		if o.Mutating() {
			refSnap = takeSnapshot(ref, snapOpts{NoPerm: true})
			sutSnap := takeSnapshot(ls.snapFS(), snapOpts{NoPerm: true})
			if refSnap.Text != sutSnap.Text {
				t.Stat("diverged-tree(not judged here)")
				break
			}
			g.observe(refSnap)
			t.State(refSnap.Text)
		}
	}
	if judged > 0 {
		t.NonTrivial()
	}
}

// c05FailedTar: a tar FS whose unpacking failed on one member with a typed error of the destination FS (an entry
// below a regular file). Every later call fails; its error still has to be a *PathError naming the caller's path,
// not the member the unpacker choked on.
func c05FailedTar(t *T) {
	c := t.C
	var buf bytes.Buffer
	w := tar.NewWriter(&buf)
	add := func(name string, dir bool, data string) {
		if dir {
			must(t, w.WriteHeader(&tar.Header{Name: name + "/", Typeflag: tar.TypeDir, Mode: 0755}))
			return
		}
		must(t, w.WriteHeader(&tar.Header{Name: name, Typeflag: tar.TypeReg, Mode: 0644, Size: int64(len(data))}))
		_, err := w.Write([]byte(data))
		must(t, err)
	}
	add("top", false, "T")
	add("d", true, "")
	add("d/f", false, "0123456789")
	add("top/x", false, "below a regular file") // the destination refuses this one with a typed error
	add("e", true, "")
	must(t, w.Close())
	// under the scheduler: which of the two refusals the unpacker meets first (the background writer of "top"
	// finding a directory, or the foreground MkdirAll finding a file) is a matter of schedule, and the background
	// writers that are still on their way when the reader gives up must not outlive the trial
	inBubble(t, 20000, func(s *Sched) {
		r, err := htar.NewReaderFS(context.Background(), bytes.NewReader(buf.Bytes()), htar.ReaderFSOptions{})
		must(t, err)
		finished := false
		s.Go("done-waiter", func() {
			<-r.Done()
			finished = true
		})
		s.Run()
		if t.Failed() || !finished {
			return
		}
		if r.UnarchiveErr() == nil {
			t.Logf("the archive with an entry below a regular file unpacked without error (C12's business)")
			return
		}
		ls := &layerStack{name: "tar (a member could not be unpacked)", family: "tar-failed-member"}
		names := []string{"top", "d", "d/f", "e", "missing", "d/missing", ".", "top/x"}
		n := 1 + c.Draw(6)
		t.Logf("stack=%s unarchive error=%v steps=%d", ls.name, r.UnarchiveErr(), n)
		for i := 0; i < n; i++ {
			o := Op{Kind: []string{"Stat", "ReadDir", "ReadFile", "OpenFile"}[c.Draw(4)], P: names[c.Draw(len(names))]}
			got := applyOpX(r, o)
			t.Logf("%d %s -> %v", i, o, got.Err)
			if got.Err != nil {
				judgeError(t, ls, o, got.Err, nil, o.Kind+"(after-failed-unpack)")
			}
		}
		t.NonTrivial()
	})
}

// applyOpX is applyOp plus Symlink.
func applyOpX(fs hackpadfs.FS, o Op) Out {
	if o.Kind == "Symlink" {
		return Out{Err: hackpadfs.Symlink(fs, o.P, o.Q)}
	}
	return applyOp(fs, o)
}

// c05Avoid keeps the generator out of regions of open known findings.
func c05Avoid(t *T, ls *layerStack, o Op, ref *snapshot) bool {
	if o.Kind == "Remove" || o.Kind == "RemoveAll" || o.Kind == "Rename" {
		for _, m := range ls.mounts {
			// a mount point as operand has no counterpart on the os twin (a plain directory there):
			// configuration, outside the comparison
			if o.P == m || (o.Kind == "Rename" && o.Q == m) {
				return true
			}
			// removing or renaming an ancestor of a mount point: open known finding KF-C03-001
			if strings.HasPrefix(m, o.P+"/") {
				return true
			}
		}
	}
	return false
}

// c05Probe applies ops to stack k and its os twin and judges every failing call.
func c05Probe(k int, ops ...Op) func(t *T) {
	return func(t *T) {
		defer beginTrial(t, false)()
		ref, _, cleanup := osTwin(t)
		defer cleanup()
		ls := buildLayerStack(t, k, ref)
		defer ls.cleanup()
		for _, o := range ops {
			snap := takeSnapshot(ref, snapOpts{NoPerm: true})
			sig := opSig(Op{Kind: o.Kind, P: o.P, Q: o.Q, Flag: o.Flag & 3}, snap)
			got := applyOpX(ls.fs, o)
			want := applyOpX(ref, o)
			t.Logf("%s -> sut=%v os=%v", o, got.Err, want.Err)
			if got.Err != nil && want.Err != nil {
				judgeError(t, ls, o, got.Err, want.Err, sig)
			}
		}
	}
}

func init() {
	RegisterProbe("c05-mkdirall-invalid", c05Probe(lsMem, Op{Kind: "MkdirAll", P: "a/../b", Perm: 0755}))
	RegisterProbe("c05-rename-invalid-dst", c05Probe(lsMem, opRename("a", "b/../c")))
	RegisterProbe("c05-mount-stat-missing", c05Probe(lsMountBare, Op{Kind: "Stat", P: "m/nope"}))
	RegisterProbe("c05-mount-open-missing", c05Probe(lsMountBare, Op{Kind: "OpenFile", P: "m/n/nope", Flag: rdonly}))
	RegisterProbe("c05-sub-mkdir-root", c05Probe(lsNestedSub, Op{Kind: "Mkdir", P: ".", Perm: 0755}))
	RegisterProbe("c05-os-mkdir-root", c05Probe(lsOsSub2, Op{Kind: "Mkdir", P: ".", Perm: 0755}))
	RegisterProbe("c05-os-rename-invalid", c05Probe(lsOsSub0, opWrite("a"), opRename("a", "b/../c")))
	RegisterProbe("c05-mount-rename-invalid", c05Probe(lsMountBare, opRename("/a", "n")))
	RegisterProbe("c05-mount-rename-crossmount-type", c05Probe(lsMountBare, opWrite("a"), opRename("a", "m/x/y")))
	RegisterProbe("c05-mount-rename-onto-dir", c05Probe(lsMountBare, opWrite("a"), opMkdir("m/d"), opRename("a", "m/d")))
	Register(&Engine{
		Prop: "C05", Name: "fsdiff/layer-stacks", Run: runC05,
		Trials: map[string]int{"quick": 40000, "thorough": 400000},
		Rule:   "seeded histories (1-20 steps, C01 alphabet plus invalid names and Symlink) over a drawn layer stack (mem; keyvalue+SimStore; mount.FS with the path 0,1,2 mount points deep, bare and through mounttest; Sub of mem, of a mount point, above a mount point, nested Sub; os.FS under 1 and 3 Sub roots; cache; tar) mirrored on an os twin; every failing call is judged for concrete type, path fields and sentinel against the twin's error; non-trivial = at least one failing call judged; distinct = event-log hash",
		Components: map[string][]string{
			"real": {"errors.go", "mount.go stripErrPathPrefix", "sub.go", "package helpers", "keyvalue.FS", "mount.FS", "internal/mounttest", "os.FS error translation", "cache", "tar (joined before the judged phase)"},
			"stub": {"SimStore (keyvalue stack)"},
		},
	})
}
