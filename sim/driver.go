package sim

import (
	"bufio"
	"bytes"
	"encoding/json"
	"fmt"
	"io"
	"os"
	"os/exec"
	"path/filepath"
	"runtime"
	"sort"
	"strconv"
	"strings"
	"sync"
	"sync/atomic"
	"time"
)

// ---- worker process handle ------------------------------------------------------------------

type tailBuf struct {
	mu  sync.Mutex
	buf []byte
}

func (b *tailBuf) Write(p []byte) (int, error) {
	b.mu.Lock()
	b.buf = append(b.buf, p...)
	if len(b.buf) > 1<<16 {
		b.buf = b.buf[len(b.buf)-1<<15:]
	}
	b.mu.Unlock()
	return len(p), nil
}
func (b *tailBuf) String() string { b.mu.Lock(); defer b.mu.Unlock(); return string(b.buf) }

type proc struct {
	cmd    *exec.Cmd
	in     io.WriteCloser
	out    *bufio.Reader
	outF   *os.File
	stderr *tailBuf
	lines  chan []byte
	served int
}

func envInt(name string, def int) int {
	if v := os.Getenv(name); v != "" {
		if n, err := strconv.Atoi(v); err == nil {
			return n
		}
	}
	return def
}

func spawnWorker() (*proc, error) {
	exe, err := os.Executable()
	if err != nil {
		return nil, err
	}
	pr, pw, err := os.Pipe()
	if err != nil {
		return nil, err
	}
	cmd := exec.Command(exe, "-test.run", "^TestWorker$", "-test.timeout", "0", "-test.count", "1")
	cmd.Env = append(os.Environ(), "VERIF_ROLE=worker")
	cmd.ExtraFiles = []*os.File{pw}
	p := &proc{cmd: cmd, stderr: &tailBuf{}}
	cmd.Stderr = p.stderr
	cmd.Stdout = p.stderr
	p.in, err = cmd.StdinPipe()
	if err != nil {
		return nil, err
	}
	if err := cmd.Start(); err != nil {
		return nil, err
	}
	pw.Close()
	p.outF = pr
	p.out = bufio.NewReaderSize(pr, 1<<20)
	p.lines = make(chan []byte, 1)
	go func() {
		for {
			l, err := p.out.ReadBytes('\n')
			if len(l) > 0 && err == nil {
				p.lines <- l
				continue
			}
			close(p.lines)
			return
		}
	}()
	return p, nil
}

func (p *proc) kill() {
	if p == nil {
		return
	}
	p.in.Close()
	p.cmd.Process.Kill()
	p.cmd.Wait()
	p.outF.Close()
}

// call sends one request and waits for its answer. died=true if the process died or hung.
func (p *proc) call(req *Request, timeout time.Duration) (res *TrialResult, died bool, why string) {
	b, _ := json.Marshal(req)
	b = append(b, '\n')
	if _, err := p.in.Write(b); err != nil {
		return nil, true, "write: " + err.Error()
	}
	select {
	case l, ok := <-p.lines:
		if !ok {
			p.cmd.Wait()
			return nil, true, "exit"
		}
		var r TrialResult
		if err := json.Unmarshal(l, &r); err != nil {
			return nil, true, "bad response: " + err.Error()
		}
		p.served++
		if r.Exiting {
			p.served = 1 << 30 // the worker has exited after answering; replace it before the next call
		}
		return &r, false, ""
	case <-time.After(timeout):
		// ask the runtime for stacks before killing, helps diagnosing hangs
		p.cmd.Process.Signal(sigQuit)
		time.Sleep(300 * time.Millisecond)
		return nil, true, "timeout"
	}
}

// ---- driver ------------------------------------------------------------------------------------

type driver struct {
	prop      string
	tier      string
	seed      uint64
	verifDir  string
	eng       *Engine
	active    []*KnownFinding
	timeout   time.Duration
	nworkers  int
	start     time.Time
	infraErrs []string
	aux       map[string]interface{}
}

func fatalInfra(format string, a ...interface{}) {
	fmt.Fprintf(os.Stderr, "INFRA: "+format+"\n", a...)
	fmt.Printf("INFRA-ERROR: "+format+"\n", a...)
	os.Exit(2)
}

func crashSignature(stderrTail, why string) string {
	if why == "timeout" {
		return "hang"
	}
	for _, l := range strings.Split(stderrTail, "\n") {
		l = strings.TrimSpace(l)
		if strings.HasPrefix(l, "fatal error:") || strings.HasPrefix(l, "panic:") || strings.HasPrefix(l, "runtime: goroutine stack exceeds") {
			return "crash:" + panicClass(l)
		}
	}
	return "crash:exit"
}

// runIsolated runs a request on a fresh process; if it dies, returns a synthetic crash violation.
func (d *driver) runIsolated(req *Request) *TrialResult {
	p, err := spawnWorker()
	if err != nil {
		fatalInfra("cannot start worker: %v", err)
	}
	defer p.kill()
	var logPath string
	if req.ChoiceLog == "" && req.Kind == "trial" {
		f, _ := os.CreateTemp("", "verif-choices-*")
		logPath = f.Name()
		f.Close()
		req.ChoiceLog = logPath
		defer os.Remove(logPath)
	}
	res, died, why := p.call(req, d.timeout)
	if !died {
		return res
	}
	tail := p.stderr.String()
	r := &TrialResult{Trial: req.Trial, Seed: req.Seed}
	r.Violation = &Violation{Property: d.prop, Engine: d.engName(), Kind: "crash", Signature: crashSignature(tail, why),
		Detail: "worker process " + why + " during the trial; stderr tail:\n" + lastLines(tail, 40)}
	if why == "timeout" {
		r.Violation.Kind = "hang"
	}
	if logPath != "" {
		r.Choices = readChoiceLog(logPath)
	} else {
		r.Choices = req.Choices
	}
	return r
}

func (d *driver) engName() string {
	if d.eng != nil {
		return d.eng.Name
	}
	return ""
}

func lastLines(s string, n int) string {
	ls := strings.Split(strings.TrimRight(s, "\n"), "\n")
	if len(ls) > n {
		ls = ls[len(ls)-n:]
	}
	return strings.Join(ls, "\n")
}

func readChoiceLog(path string) []uint32 {
	b, err := os.ReadFile(path)
	if err != nil {
		return nil
	}
	var out []uint32
	for _, f := range strings.Fields(string(b)) {
		n, err := strconv.ParseUint(f, 10, 32)
		if err != nil {
			break
		}
		out = append(out, uint32(n))
	}
	return out
}

type aggregate struct {
	mu         sync.Mutex
	evals      int64
	nontrivial map[string]struct{}
	states     map[uint64]struct{}
	scheds     map[uint64]struct{}
	stats      map[string]int64
	steps      int64
	knownHits  map[string]int64
	samples    []interface{}
	viols      []*TrialResult
	sigs       map[string]bool
	survey     map[string]int
	surveyEx   map[string]string
}

func (a *aggregate) add(r *TrialResult) {
	a.mu.Lock()
	defer a.mu.Unlock()
	a.evals++
	a.steps += r.Steps
	if r.NonTrivial && r.Violation == nil && r.KnownHit == "" {
		a.nontrivial[r.EventHash] = struct{}{}
	}
	for _, s := range r.States {
		a.states[s] = struct{}{}
	}
	for _, s := range r.Scheds {
		a.scheds[s] = struct{}{}
	}
	for k, v := range r.Stats {
		a.stats[k] += v
	}
	if r.KnownHit != "" {
		a.knownHits[r.KnownHit]++
	}
	if len(r.Trace) > 0 && len(a.samples) < 3 && r.NonTrivial && r.Violation == nil {
		tr := r.Trace
		if len(tr) > 60 {
			tr = append(append([]string{}, tr[:60]...), fmt.Sprintf("... (%d more lines)", len(r.Trace)-60))
		}
		a.samples = append(a.samples, map[string]interface{}{"trial": r.Trial, "seed": r.Seed, "trace": tr})
	}
	if r.Violation != nil && a.survey != nil {
		a.survey[r.Violation.Signature]++
		if _, ok := a.surveyEx[r.Violation.Signature]; !ok {
			a.surveyEx[r.Violation.Signature] = fmt.Sprintf("[trial %d] ", r.Trial) + r.Violation.Detail
		}
		return
	}
	if r.Violation != nil && !a.sigs[r.Violation.Signature] && len(a.viols) < 3 {
		a.sigs[r.Violation.Signature] = true
		a.viols = append(a.viols, r)
	}
}

func driverMain() {
	prop := os.Getenv("VERIF_PROP")
	tier := os.Getenv("VERIF_TIER")
	if tier == "" {
		tier = "quick"
	}
	seed := uint64(1)
	if v := os.Getenv("VERIF_SEED"); v != "" {
		if n, err := strconv.ParseInt(v, 10, 64); err == nil {
			seed = uint64(n)
		}
	}
	verifDir := os.Getenv("VERIF_DIR")
	if verifDir == "" {
		verifDir = "/verif"
	}
	d := &driver{prop: prop, tier: tier, seed: seed, verifDir: verifDir, start: time.Now()}
	d.nworkers = envInt("VERIF_WORKERS", runtime.NumCPU())
	d.timeout = time.Duration(envInt("VERIF_TRIAL_TIMEOUT_S", 60)) * time.Second

	switch os.Getenv("VERIF_MODE") {
	case "replay":
		d.eng = engines[prop]
		os.Exit(d.replayFile(os.Getenv("VERIF_REPLAY")))
	case "trial":
		d.eng = engines[prop]
		n := uint64(envInt("VERIF_TRIALNO", 0))
		p, err := spawnWorker()
		if err != nil {
			fatalInfra("spawn: %v", err)
		}
		res, died, why := p.call(&Request{Kind: "trial", Prop: prop, Tier: tier, Trial: n, Seed: mixSeed(seed, prop, n), Keep: true, WantLog: true}, d.timeout)
		if died {
			fmt.Println("DIED:", why)
			fmt.Println(p.stderr.String())
			os.Exit(1)
		}
		for _, l := range res.Trace {
			fmt.Println("  " + l)
		}
		b, _ := json.Marshal(res.Violation)
		fmt.Println(string(b), res.Infra, res.KnownHit)
		os.Exit(0)
	case "hashes":
		d.eng = engines[prop]
		d.dumpHashes()
		os.Exit(0)
	case "list":
		var ids []string
		for id := range engines {
			ids = append(ids, id)
		}
		sort.Strings(ids)
		fmt.Println(strings.Join(ids, " "))
		os.Exit(0)
	}
	e, ok := engines[prop]
	if !ok {
		fatalInfra("no engine registered for property %q", prop)
	}
	d.eng = e
	if e.Custom != nil {
		os.Exit(e.Custom(d))
	}
	os.Exit(d.check())
}

func (d *driver) check() int {
	known, err := loadKnown(filepath.Join(d.verifDir, "known_findings.json"))
	if err != nil {
		fatalInfra("known_findings.json: %v", err)
	}
	exit := 0
	var violLines []string
	// 1. probes of known findings for this property
	knownReport := []map[string]interface{}{}
	for _, k := range known {
		if k.Property != d.prop {
			continue
		}
		if k.Probe == "" && k.Status == "fixed" {
			continue // schedule-dependent defect: re-checked by the search itself, no fixed-schedule probe
		}
		if k.Probe == "none-wasm" || strings.HasPrefix(k.Probe, "wasm:") {
			continue // re-checked by the engine's js/wasm phase, which has no native probe
		}
		res := d.runIsolated(&Request{Kind: "probe", Prop: d.prop, Tier: d.tier, Probe: k.Probe, Keep: true})
		if res.Infra != "" {
			fatalInfra("probe %s: %s", k.Probe, res.Infra)
		}
		still := res.Violation != nil && sigMatch(k.Signature, res.Violation.Signature)
		other := res.Violation != nil && !still
		switch {
		case k.Status == "open" && still:
			fmt.Printf("KNOWN-FINDING: property=%s %s [%s]\n", d.prop, k.What, k.ID)
			d.active = append(d.active, k)
		case k.Status == "open" && !still && !other:
			fmt.Printf("note: known finding %s no longer reproduces; its region is searched in full again\n", k.ID)
		case k.Status == "fixed" && still, other:
			// a fixed defect came back, or the probe fails in a different way: report like any violation
			res.Violation.Property = d.prop
			path := d.writeReplay(res, res.Choices, nil, "probe:"+k.Probe)
			violLines = append(violLines, fmt.Sprintf("VIOLATION property=%s replay=%s", d.prop, path))
			fmt.Printf("regression of %s (%s): %s\n", k.ID, k.What, res.Violation.Signature)
			exit = 1
		}
		knownReport = append(knownReport, map[string]interface{}{"id": k.ID, "status": k.Status, "still_fails": still})
	}

	// 2. search
	total := d.eng.Trials[d.tier]
	if total == 0 {
		total = d.eng.Trials["quick"]
	}
	if v := envInt("VERIF_TRIALS", 0); v > 0 {
		total = v
	}
	wallCap := time.Duration(envInt("VERIF_WALL_S", map[string]int{"quick": 150, "thorough": 1500}[d.tier])) * time.Second
	agg := &aggregate{nontrivial: map[string]struct{}{}, states: map[uint64]struct{}{}, scheds: map[uint64]struct{}{},
		stats: map[string]int64{}, knownHits: map[string]int64{}, sigs: map[string]bool{}}
	survey := os.Getenv("VERIF_SURVEY") != ""
	if survey {
		agg.survey = map[string]int{}
		agg.surveyEx = map[string]string{}
	}
	var next int64 = -1
	var stop int32
	var wg sync.WaitGroup
	nw := d.nworkers
	if nw > total {
		nw = total
	}
	var infraMu sync.Mutex
	for w := 0; w < nw; w++ {
		wg.Add(1)
		go func() {
			defer wg.Done()
			var p *proc
			defer func() { p.kill() }()
			for atomic.LoadInt32(&stop) == 0 {
				i := atomic.AddInt64(&next, 1)
				if i >= int64(total) {
					return
				}
				if time.Since(d.start) > wallCap {
					atomic.StoreInt32(&stop, 1)
					return
				}
				if p == nil || p.served >= 3000 {
					p.kill()
					var err error
					p, err = spawnWorker()
					if err != nil {
						infraMu.Lock()
						d.infraErrs = append(d.infraErrs, "spawn: "+err.Error())
						infraMu.Unlock()
						return
					}
				}
				req := &Request{Kind: "trial", Prop: d.prop, Tier: d.tier, Trial: uint64(i),
					Seed: mixSeed(d.seed, d.prop, uint64(i)), Keep: i < 6, Active: d.active}
				res, died, _ := p.call(req, d.timeout)
				if died {
					p.kill()
					p = nil
					// attribute: re-run alone on a fresh process, recording choices as they are drawn
					req2 := *req
					req2.Keep = true
					res = d.runIsolated(&req2)
					if res.Violation == nil && res.Infra == "" {
						// died once, passed alone: either nondeterminism of the machinery or damage
						// left by an earlier trial in the same process. Never a verdict.
						infraMu.Lock()
						d.infraErrs = append(d.infraErrs, fmt.Sprintf("trial %d: worker died but the trial passes alone", i))
						infraMu.Unlock()
						continue
					}
				}
				if res.Infra != "" {
					infraMu.Lock()
					d.infraErrs = append(d.infraErrs, fmt.Sprintf("trial %d: %s", i, res.Infra))
					infraMu.Unlock()
					continue
				}
				agg.add(res)
				if res.Violation != nil && !survey {
					agg.mu.Lock()
					n := len(agg.viols)
					agg.mu.Unlock()
					if n >= 2 || d.tier == "quick" {
						atomic.StoreInt32(&stop, 1)
					}
				}
			}
		}()
	}
	wg.Wait()
	searchWall := time.Since(d.start)
	if survey {
		var sigs []string
		for s := range agg.survey {
			sigs = append(sigs, s)
		}
		sort.Strings(sigs)
		for _, s := range sigs {
			fmt.Printf("SURVEY %6d  %s\n        %s\n", agg.survey[s], s, strings.ReplaceAll(agg.surveyEx[s], "\n", "\n        "))
		}
		fmt.Printf("SURVEY total trials=%d distinct signatures=%d\n", agg.evals, len(sigs))
		return 0
	}

	// 3. report violations: confirm on a fresh process, minimise, write replay
	for _, v := range agg.viols {
		conf := d.runIsolated(&Request{Kind: "replay", Prop: d.prop, Tier: d.tier, Choices: v.Choices, Keep: true, Active: d.active, Trial: v.Trial, Seed: v.Seed})
		if conf.Violation == nil || conf.Violation.Signature != v.Violation.Signature {
			got := "no violation"
			if conf.Violation != nil {
				got = conf.Violation.Signature
			}
			d.infraErrs = append(d.infraErrs, fmt.Sprintf("trial %d (seed %d) violation %q did not reproduce on replay (got %s): the machinery is nondeterministic here", v.Trial, v.Seed, v.Violation.Signature, got))
			continue
		}
		min := d.shrink(v.Choices, v.Violation.Signature)
		final := d.runIsolated(&Request{Kind: "replay", Prop: d.prop, Tier: d.tier, Choices: min, Keep: true, Active: d.active, Trial: v.Trial, Seed: v.Seed})
		if final.Violation == nil || final.Violation.Signature != v.Violation.Signature {
			final = conf
			min = v.Choices
		}
		path := d.writeReplay(final, min, v.Choices, "")
		violLines = append(violLines, fmt.Sprintf("VIOLATION property=%s replay=%s", d.prop, path))
		fmt.Printf("violation kind=%s signature=%s\n%s\n", final.Violation.Kind, final.Violation.Signature, final.Violation.Detail)
		exit = 1
	}

	// 3b. auxiliary phase of the engine (e.g. the js/wasm half of C19)
	var auxNotes map[string]interface{}
	if d.eng.Aux != nil && !survey {
		var auxLines []string
		auxLines, auxNotes = d.eng.Aux(d)
		if len(auxLines) > 0 {
			violLines = append(violLines, auxLines...)
			exit = 1
		}
	}

	// 4. evidence
	d.aux = auxNotes
	d.writeEvidence(agg, knownReport, searchWall, len(violLines))

	for _, l := range violLines {
		fmt.Println(l)
	}
	if len(d.infraErrs) > 0 {
		for _, e := range d.infraErrs {
			fmt.Fprintln(os.Stderr, "INFRA:", e)
		}
		if exit == 0 {
			fmt.Printf("INFRA-ERROR: %d harness problems (first: %s)\n", len(d.infraErrs), d.infraErrs[0])
			return 2
		}
	}
	if exit == 0 {
		fmt.Printf("OK property=%s tier=%s seed=%d trials=%d distinct_nontrivial=%d wall=%.1fs\n", d.prop, d.tier, d.seed, agg.evals, len(agg.nontrivial), time.Since(d.start).Seconds())
	}
	return exit
}

// ---- shrinking -----------------------------------------------------------------------------------

func (d *driver) shrink(choices []uint32, sig string) []uint32 {
	var p *proc
	defer func() { p.kill() }()
	return shrinkWith(choices, envInt("VERIF_SHRINK_RUNS", 600), func(c []uint32) bool {
		if p != nil && p.served >= 3000 {
			p.kill()
			p = nil
		}
		if p == nil {
			var err error
			p, err = spawnWorker()
			if err != nil {
				return false
			}
		}
		req := &Request{Kind: "replay", Prop: d.prop, Tier: d.tier, Choices: c, Active: d.active}
		res, died, why := p.call(req, d.timeout)
		if died {
			s := crashSignature(p.stderr.String(), why)
			p.kill()
			p = nil
			return s == sig
		}
		return res.Violation != nil && res.Violation.Signature == sig
	})
}

// shrinkWith minimises a choice sequence while stillFails holds (generic: delete chunks, zero, halve).
func shrinkWith(choices []uint32, budget int, stillFails func([]uint32) bool) []uint32 {
	deadline := time.Now().Add(time.Duration(envInt("VERIF_SHRINK_S", 60)) * time.Second)
	runs := 0
	test := func(c []uint32) bool {
		if runs >= budget || time.Now().After(deadline) {
			return false
		}
		runs++
		return stillFails(c)
	}
	cur := append([]uint32(nil), choices...)
	// trailing zeros are implied
	trim := func(c []uint32) []uint32 {
		for len(c) > 0 && c[len(c)-1] == 0 {
			c = c[:len(c)-1]
		}
		return c
	}
	cur = trim(cur)
	improved := true
	for improved && runs < budget {
		improved = false
		// delete chunks
		for _, sz := range []int{32, 8, 4, 2, 1} {
			for i := len(cur) - sz; i >= 0; {
				if i+sz > len(cur) {
					i = len(cur) - sz
					if i < 0 {
						break
					}
				}
				cand := append(append([]uint32(nil), cur[:i]...), cur[i+sz:]...)
				if test(cand) {
					cur = trim(cand)
					improved = true
					i -= sz
				} else {
					i--
				}
				if runs >= budget {
					break
				}
			}
		}
		// zero / halve / decrement values
		for i := 0; i < len(cur) && runs < budget; i++ {
			if cur[i] == 0 {
				continue
			}
			for _, nv := range []uint32{0, cur[i] / 2, cur[i] - 1} {
				if nv >= cur[i] {
					continue
				}
				cand := append([]uint32(nil), cur...)
				cand[i] = nv
				if test(cand) {
					cur = trim(cand)
					improved = true
					break
				}
			}
		}
	}
	return cur
}

// ---- replay files ----------------------------------------------------------------------------------

type replayFile struct {
	Property  string     `json:"property"`
	Engine    string     `json:"engine"`
	Tier      string     `json:"tier"`
	BaseSeed  uint64     `json:"base_seed"`
	Trial     uint64     `json:"trial"`
	TrialSeed uint64     `json:"trial_seed"`
	Probe     string     `json:"probe,omitempty"`
	Violation *Violation `json:"violation"`
	EventHash string     `json:"event_hash"`
	Choices   []uint32   `json:"choices"`
	Original  []uint32   `json:"original_choices,omitempty"`
	Trace     []string   `json:"trace"`
	Active    []string   `json:"active_known_findings,omitempty"`
}

func (d *driver) writeReplayEngine(res *TrialResult, min, orig []uint32, engine string) string {
	save := d.eng
	d.eng = &Engine{Name: engine}
	defer func() { d.eng = save }()
	return d.writeReplay(res, min, orig, "")
}

func (d *driver) writeReplay(res *TrialResult, min, orig []uint32, probe string) string {
	dir := filepath.Join(d.verifDir, "replays")
	if repo := os.Getenv("VERIF_REPO"); repo != "" && repo != "/repo" {
		dir = filepath.Join(os.Getenv("VERIF_BUILD"), "replays")
	}
	os.MkdirAll(dir, 0755)
	rf := &replayFile{Property: d.prop, Engine: d.engName(), Tier: d.tier, BaseSeed: d.seed, Trial: res.Trial, TrialSeed: res.Seed,
		Violation: res.Violation, EventHash: res.EventHash, Choices: min, Original: orig, Trace: res.Trace}
	if strings.HasPrefix(probe, "probe:") {
		rf.Probe = strings.TrimPrefix(probe, "probe:")
	}
	for _, k := range d.active {
		rf.Active = append(rf.Active, k.ID)
	}
	name := fmt.Sprintf("%s-%s-seed%d-trial%d-%08x.json", d.prop, d.tier, d.seed, res.Trial, hashStr(res.Violation.Signature)&0xffffffff)
	if rf.Probe != "" {
		name = fmt.Sprintf("%s-probe-%s.json", d.prop, rf.Probe)
	}
	path := filepath.Join(dir, name)
	b, _ := json.MarshalIndent(rf, "", " ")
	if err := os.WriteFile(path, b, 0644); err != nil {
		fatalInfra("cannot write replay file: %v", err)
	}
	return path
}

func (d *driver) replayFile(path string) int {
	b, err := os.ReadFile(path)
	if err != nil {
		fatalInfra("replay file: %v", err)
	}
	var rf replayFile
	if err := json.Unmarshal(b, &rf); err != nil {
		fatalInfra("replay file: %v", err)
	}
	known, _ := loadKnown(filepath.Join(d.verifDir, "known_findings.json"))
	for _, k := range known {
		for _, id := range rf.Active {
			if k.ID == id {
				d.active = append(d.active, k)
			}
		}
	}
	d.prop = rf.Property
	if e := engines[rf.Property]; e != nil && e.AuxReplay != nil && (strings.HasSuffix(rf.Engine, "/wasm") || strings.HasSuffix(rf.Engine, "/race-detector") || rf.Engine == "deviants") {
		return e.AuxReplay(d, &rf, path)
	}
	req := &Request{Kind: "replay", Prop: rf.Property, Tier: rf.Tier, Choices: rf.Choices, Keep: true, Active: d.active, Trial: rf.Trial, Seed: rf.TrialSeed}
	if rf.Probe != "" {
		req.Kind = "probe"
		req.Probe = rf.Probe
	}
	res := d.runIsolated(req)
	for _, l := range res.Trace {
		fmt.Println("  " + l)
	}
	if res.Infra != "" {
		fatalInfra("%s", res.Infra)
	}
	if res.Violation != nil {
		fmt.Printf("violation kind=%s signature=%s\n%s\n", res.Violation.Kind, res.Violation.Signature, res.Violation.Detail)
		same := rf.Violation != nil && res.Violation.Signature == rf.Violation.Signature
		fmt.Printf("reproduced: signature_same=%v event_hash_same=%v (%s vs recorded %s)\n", same, res.EventHash == rf.EventHash, res.EventHash, rf.EventHash)
		fmt.Printf("VIOLATION property=%s replay=%s\n", rf.Property, path)
		return 1
	}
	fmt.Printf("replay of %s: no violation on this tree (event hash %s, recorded %s)\n", path, res.EventHash, rf.EventHash)
	return 0
}

// dumpHashes prints one line per trial "<trial> <eventhash>" for the determinism self-test.
func (d *driver) dumpHashes() {
	n := envInt("VERIF_TRIALS", 30)
	known, _ := loadKnown(filepath.Join(d.verifDir, "known_findings.json"))
	for _, k := range known {
		if k.Property == d.prop && k.Status == "open" {
			d.active = append(d.active, k)
		}
	}
	nw := d.nworkers
	out := make([]string, n)
	var next int64 = -1
	var wg sync.WaitGroup
	for w := 0; w < nw; w++ {
		wg.Add(1)
		go func() {
			defer wg.Done()
			p, err := spawnWorker()
			if err != nil {
				fatalInfra("spawn: %v", err)
			}
			defer func() { p.kill() }()
			for {
				i := atomic.AddInt64(&next, 1)
				if i >= int64(n) {
					return
				}
				req := &Request{Kind: "trial", Prop: d.prop, Tier: d.tier, Trial: uint64(i), Seed: mixSeed(d.seed, d.prop, uint64(i)), Active: d.active, WantLog: true}
				res, died, why := p.call(req, d.timeout)
				if died {
					out[i] = fmt.Sprintf("%d DIED %s", i, crashSignature(p.stderr.String(), why))
					p.kill()
					p, _ = spawnWorker()
					continue
				}
				v := "-"
				if res.Violation != nil {
					v = res.Violation.Signature
				}
				if res.KnownHit != "" {
					v = "known:" + res.KnownHit
				}
				out[i] = fmt.Sprintf("%d %s choices=%016x steps=%d %s infra=%q", i, res.EventHash, hashChoices(res.Choices), res.Steps, v, res.Infra)
			}
		}()
	}
	wg.Wait()
	for _, l := range out {
		fmt.Println(l)
	}
}

func hashChoices(c []uint32) uint64 {
	var b bytes.Buffer
	for _, v := range c {
		fmt.Fprintf(&b, "%d,", v)
	}
	return hashStr(b.String())
}

// ---- evidence ----------------------------------------------------------------------------------------

func (d *driver) writeEvidence(a *aggregate, knownReport []map[string]interface{}, searchWall time.Duration, nviol int) {
	faults := map[string]int64{}
	probesHit := map[string]int64{}
	other := map[string]int64{}
	for k, v := range a.stats {
		switch {
		case strings.HasPrefix(k, "fault:"):
			faults[strings.TrimPrefix(k, "fault:")] = v
		case strings.HasPrefix(k, "probe:"):
			probesHit[strings.TrimPrefix(k, "probe:")] = v
		default:
			other[k] = v
		}
	}
	hours := searchWall.Hours()
	if hours <= 0 {
		hours = 1e-9
	}
	samples := a.samples
	if len(samples) == 0 {
		samples = []interface{}{"no non-trivial trial among the first six (see counters)"}
	}
	cov := map[string]interface{}{
		"evaluations":         a.evals,
		"distinct_nontrivial": len(a.nontrivial),
		"rule":                d.eng.Rule,
		"samples":             samples,
		"trials_per_hour":     int64(float64(a.evals) / hours),
		"seeds_per_hour":      int64(float64(a.evals) / hours),
		"scheduler_steps":     a.steps,
		"simulated_time":      "the library has no timers or deadlines; simulated time is reported as scheduler/operation steps (scheduler_steps); the fake clock never needs to advance",
		"faults_fired":        faults,
		"rare_condition_hits": probesHit,
		"counters":            other,
		"distinct_schedules":  len(a.scheds),
		"distinct_states":     len(a.states),
		"components":          d.eng.Components,
		"known_findings":      knownReport,
		"known_finding_hits":  a.knownHits,
		"workers":             d.nworkers,
		"base_seed":           d.seed,
		"exhaustive":          false,
	}
	for k, v := range d.aux {
		cov[k] = v
	}
	level := d.eng.Level
	if level == "" {
		level = "exploration"
	}
	ev := map[string]interface{}{
		"property_id": d.prop,
		"tier":        d.tier,
		"seed":        int64(d.seed),
		"level":       level,
		"coverage":    cov,
		"assumptions": []string{
			"samples seeds; a clean batch is evidence, not proof",
			"trusted base: choice stream, scheduler, driver, AST instrumenter, testing/synctest of go1.26.8, Go's os package on this Linux kernel (as root) as reference",
		},
		"wall_s":     time.Since(d.start).Seconds(),
		"violations": nviol,
	}
	b, _ := json.MarshalIndent(ev, "", " ")
	dir := filepath.Join(d.verifDir, "evidence")
	if repo := os.Getenv("VERIF_REPO"); repo != "" && repo != "/repo" {
		// runs against a scratch copy never touch the evidence of the real tree
		dir = filepath.Join(os.Getenv("VERIF_BUILD"), "evidence")
	}
	os.MkdirAll(dir, 0755)
	if err := os.WriteFile(filepath.Join(dir, d.prop+".json"), b, 0644); err != nil {
		fatalInfra("cannot write evidence: %v", err)
	}
}
