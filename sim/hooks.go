package sim

import (
	"github.com/hack-pad/hackpadfs/verifhook"
)

// cur is the trial currently running in this worker process (one at a time).
var cur struct {
	t     *T
	sched *Sched
	order bool              // permute sync.Map iteration order from the choice stream
	knobs map[string]uint64 // tuning constants for this trial
}

func init() {
	verifhook.OrderHook = func(label string, n int) []int {
		if cur.t == nil || !cur.order || n < 2 || isStray() {
			return nil
		}
		cur.t.Stat("probe:order-permuted")
		return cur.t.C.Perm(n)
	}
	verifhook.KnobHook = func(name string, def uint64) uint64 {
		if v, ok := cur.knobs[name]; ok {
			return v
		}
		return def
	}
	verifhook.YieldHook = func(label string) {
		if s := cur.sched; s != nil {
			s.Yield(label)
		}
	}
	verifhook.LockHook = func(mu interface{}, kind, label string) {
		if s := cur.sched; s != nil {
			s.BeforeLock(mu, kind, label)
		}
	}
}

// beginTrial installs per-trial hook state; the returned func removes it.
func beginTrial(t *T, order bool) func() {
	cur.t = t
	cur.order = order
	cur.knobs = map[string]uint64{}
	return func() {
		cur.t = nil
		cur.sched = nil
		cur.order = false
		cur.knobs = nil
	}
}
