package sim

import "syscall"

var sigQuit = syscall.SIGQUIT
