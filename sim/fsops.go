package sim

import (
	"fmt"
	"path"
	"sort"
	"strings"
	"time"

	"github.com/hack-pad/hackpadfs"
)

// Op is one namespace operation applied through the package helpers.
type Op struct {
	Kind  string // Mkdir MkdirAll OpenFile WriteFullFile Remove RemoveAll Rename Chmod Chtimes Stat ReadDir ReadFile
	P, Q  string
	Flag  int
	Perm  hackpadfs.FileMode
	Data  []byte
	Mtime int64 // unix seconds
	Raw   bool  // Stat("."): report name and mode of the root too (twin comparisons)
}

func flagString(flag int) string {
	var s []string
	switch flag & 3 {
	case hackpadfs.FlagReadOnly:
		s = append(s, "RDONLY")
	case hackpadfs.FlagWriteOnly:
		s = append(s, "WRONLY")
	case hackpadfs.FlagReadWrite:
		s = append(s, "RDWR")
	default:
		s = append(s, "ACC3")
	}
	if flag&hackpadfs.FlagCreate != 0 {
		s = append(s, "CREATE")
	}
	if flag&hackpadfs.FlagExclusive != 0 {
		s = append(s, "EXCL")
	}
	if flag&hackpadfs.FlagTruncate != 0 {
		s = append(s, "TRUNC")
	}
	if flag&hackpadfs.FlagAppend != 0 {
		s = append(s, "APPEND")
	}
	return strings.Join(s, "|")
}

func (o Op) String() string {
	switch o.Kind {
	case "Mkdir", "MkdirAll":
		return fmt.Sprintf("%s(%q, %04o)", o.Kind, o.P, o.Perm)
	case "OpenFile":
		return fmt.Sprintf("OpenFile(%q, %s, %04o) write=%d", o.P, flagString(o.Flag), o.Perm, len(o.Data))
	case "WriteFullFile":
		return fmt.Sprintf("WriteFullFile(%q, %d bytes, %04o)", o.P, len(o.Data), o.Perm)
	case "Rename":
		return fmt.Sprintf("Rename(%q, %q)", o.P, o.Q)
	case "Chmod":
		return fmt.Sprintf("Chmod(%q, %04o)", o.P, o.Perm)
	case "Chtimes":
		return fmt.Sprintf("Chtimes(%q, %d)", o.P, o.Mtime)
	}
	return fmt.Sprintf("%s(%q)", o.Kind, o.P)
}

// Mutating reports whether the op can change the tree.
func (o Op) Mutating() bool {
	switch o.Kind {
	case "Stat", "ReadDir", "ReadFile", "Lstat", "LstatOrStat", "Sub":
		return false
	case "OpenFile":
		return o.Flag&(hackpadfs.FlagCreate|hackpadfs.FlagTruncate) != 0 || (o.Flag&3 != 0 && len(o.Data) > 0)
	}
	return true
}

// Out is the observable result of an op.
type Out struct {
	Partial string // what a failing read delivered together with its error (bytes / entries read so far)
	Err     error
	Data    string
}

func infoString(info hackpadfs.FileInfo) string {
	if info == nil {
		return "<nil info>"
	}
	k := "f"
	if info.IsDir() {
		k = "d"
		return fmt.Sprintf("name=%s kind=%s perm=%04o", info.Name(), k, info.Mode().Perm())
	}
	return fmt.Sprintf("name=%s kind=%s perm=%04o size=%d", info.Name(), k, info.Mode().Perm(), info.Size())
}

// applyOp runs op on fs through the package helpers.
func applyOp(fs hackpadfs.FS, o Op) (out Out) {
	switch o.Kind {
	case "Mkdir":
		out.Err = hackpadfs.Mkdir(fs, o.P, o.Perm)
	case "MkdirAll":
		out.Err = hackpadfs.MkdirAll(fs, o.P, o.Perm)
	case "OpenFile":
		f, err := hackpadfs.OpenFile(fs, o.P, o.Flag, o.Perm)
		out.Err = err
		if err == nil {
			if f == nil {
				out.Data = "nil-file-with-nil-error"
				return
			}
			if len(o.Data) > 0 && o.Flag&3 != 0 {
				buf := append([]byte(nil), o.Data...)
				n, werr := hackpadfs.WriteFile(f, buf)
				scribble(buf)
				out.Data = fmt.Sprintf("write n=%d %s", n, okFail(werr))
			}
			cerr := f.Close()
			out.Data += " close=" + okFail(cerr)
		} else if f != nil {
			// some implementations return a handle together with an error
			func() {
				defer func() { recover() }()
				f.Close()
			}()
		}
	case "WriteFullFile":
		buf := append([]byte(nil), o.Data...)
		out.Err = hackpadfs.WriteFullFile(fs, o.P, buf, o.Perm)
		scribble(buf)
	case "Remove":
		out.Err = hackpadfs.Remove(fs, o.P)
	case "RemoveAll":
		out.Err = hackpadfs.RemoveAll(fs, o.P)
	case "Rename":
		out.Err = hackpadfs.Rename(fs, o.P, o.Q)
	case "Chmod":
		out.Err = hackpadfs.Chmod(fs, o.P, o.Perm)
	case "Chtimes":
		tm := time.Unix(o.Mtime, 0)
		mt := tm
		if o.Mtime == 0 {
			mt = time.Time{} // the zero time: "leave the modification time as it is" (os.Chtimes)
		}
		out.Err = hackpadfs.Chtimes(fs, o.P, tm, mt)
	case "Stat":
		info, err := hackpadfs.Stat(fs, o.P)
		out.Err = err
		if err == nil {
			out.Data = infoString(info)
			if o.P == "." && !o.Raw {
				// the root's own mode and name are outside the comparison
				out.Data = fmt.Sprintf("root kind-dir=%v", info.IsDir())
			}
		}
	case "ReadDir":
		ents, err := hackpadfs.ReadDir(fs, o.P)
		out.Err = err
		var l []string
		for _, e := range ents {
			k := "f"
			if e.IsDir() {
				k = "d"
			}
			l = append(l, e.Name()+":"+k)
		}
		if err == nil {
			out.Data = strings.Join(l, ",")
		} else if len(l) > 0 {
			out.Partial = strings.Join(l, ",")
		}
	case "ReadFile":
		b, err := hackpadfs.ReadFile(fs, o.P)
		out.Err = err
		if err == nil {
			out.Data = fmt.Sprintf("%d:%x", len(b), hashStr(string(b)))
		} else if len(b) > 0 {
			out.Partial = fmt.Sprintf("%d:%x", len(b), hashStr(string(b)))
		}
	case "Create":
		f, err := hackpadfs.Create(fs, o.P)
		out.Err = err
		if err == nil {
			if len(o.Data) > 0 {
				n, werr := hackpadfs.WriteFile(f, o.Data)
				out.Data = fmt.Sprintf("write n=%d %s", n, okFail(werr))
			}
			out.Data += " close=" + okFail(f.Close())
		}
	case "Lstat", "LstatOrStat":
		var info hackpadfs.FileInfo
		if o.Kind == "Lstat" {
			info, out.Err = hackpadfs.Lstat(fs, o.P)
		} else {
			info, out.Err = hackpadfs.LstatOrStat(fs, o.P)
		}
		if out.Err == nil {
			out.Data = infoString(info)
			if o.P == "." && !o.Raw {
				out.Data = fmt.Sprintf("root kind-dir=%v", info.IsDir())
			}
		}
	case "Chown":
		out.Err = hackpadfs.Chown(fs, o.P, 0, 0)
	case "Symlink":
		out.Err = hackpadfs.Symlink(fs, o.P, o.Q)
	case "Sub":
		sub, err := hackpadfs.Sub(fs, o.P)
		out.Err = err
		if err == nil {
			ents, derr := hackpadfs.ReadDir(sub, ".")
			var l []string
			for _, e := range ents {
				l = append(l, e.Name())
			}
			out.Data = fmt.Sprintf("sub listing %v %s", l, errClass(derr))
		}
	default:
		panic("unknown op " + o.Kind)
	}
	return
}

// ---- generator -----------------------------------------------------------------------------------------

var permChoices = []hackpadfs.FileMode{0644, 0755, 0, 0400, 0600, 0777, 0644 | hackpadfs.ModeSticky, 0755 | hackpadfs.ModeSetuid, 0700 | hackpadfs.ModeDir}
var sizeChoices = []int{0, 1, 7, 511, 512, 513, 4096}

// fsGen generates ops biased towards the paths that exist in the reference state.
type fsGen struct {
	t      *T
	alpha  []string
	depth  int
	step   int
	files  []string // existing regular files (reference view), sorted
	dirs   []string // existing directories incl. ".", sorted
	kinds  []string // op kinds with weights
	weight []int
	past   []Op // the last few mutating ops handed out (for echoes)
	script []Op // a planned sequence handed out before anything else is drawn
}

func newFsGen(t *T, alpha []string, depth int) *fsGen {
	g := &fsGen{t: t, alpha: alpha, depth: depth, dirs: []string{"."}}
	g.kinds = []string{"WriteFullFile", "Mkdir", "OpenFile", "Rename", "Remove", "MkdirAll", "RemoveAll", "Chmod", "Chtimes", "Stat", "ReadDir", "ReadFile"}
	g.weight = []int{6, 6, 8, 7, 5, 3, 2, 3, 2, 2, 2, 2}
	return g
}

// observe updates the generator's view from a reference snapshot.
func (g *fsGen) observe(s *snapshot) {
	g.files = g.files[:0]
	g.dirs = append(g.dirs[:0], ".")
	for p, e := range s.Entries {
		if e.Kind == "d" {
			g.dirs = append(g.dirs, p)
		} else {
			g.files = append(g.files, p)
		}
	}
	sort.Strings(g.files)
	sort.Strings(g.dirs)
}

func (g *fsGen) name() string { return g.alpha[g.t.C.Draw(len(g.alpha))] }

func (g *fsGen) randomPath() string {
	n := 1 + g.t.C.Draw(g.depth)
	parts := make([]string, n)
	for i := range parts {
		parts[i] = g.name()
	}
	return strings.Join(parts, "/")
}

func depthOf(p string) int {
	if p == "." {
		return 0
	}
	return strings.Count(p, "/") + 1
}

// path draws a path: existing entry, new child of an existing directory, child of a file, or random.
func (g *fsGen) path() string {
	c := g.t.C
	switch c.Weighted(4, 4, 3, 1, 1) {
	case 0: // new or existing child of an existing directory
		d := g.dirs[c.Draw(len(g.dirs))]
		if depthOf(d) >= g.depth {
			return d
		}
		return path.Join(d, g.name())
	case 1: // an existing entry
		all := len(g.files) + len(g.dirs) - 1
		if all <= 0 {
			return g.name()
		}
		i := c.Draw(all)
		if i < len(g.files) {
			return g.files[i]
		}
		return g.dirs[1+i-len(g.files)]
	case 2:
		return g.randomPath()
	case 3: // below a regular file
		if len(g.files) == 0 {
			return g.randomPath()
		}
		return path.Join(g.files[c.Draw(len(g.files))], g.name())
	default:
		return "."
	}
}

func (g *fsGen) perm() hackpadfs.FileMode { return permChoices[g.t.C.Draw(len(permChoices))] }

func (g *fsGen) data() []byte {
	n := sizeChoices[g.t.C.Draw(len(sizeChoices))]
	return uniqueData(g.step, n)
}

// uniqueData returns n bytes that identify the step that wrote them.
func uniqueData(step, n int) []byte {
	b := make([]byte, n)
	tag := fmt.Sprintf("<%d>", step)
	for i := range b {
		b[i] = tag[i%len(tag)]
	}
	return b
}

func (g *fsGen) flags() int {
	c := g.t.C
	flag := []int{hackpadfs.FlagReadOnly, hackpadfs.FlagWriteOnly, hackpadfs.FlagReadWrite}[c.Draw(3)]
	if c.Chance(1, 2) {
		flag |= hackpadfs.FlagCreate
	}
	if c.Chance(1, 4) {
		flag |= hackpadfs.FlagExclusive
	}
	if c.Chance(1, 4) {
		flag |= hackpadfs.FlagTruncate
	}
	if c.Chance(1, 4) {
		flag |= hackpadfs.FlagAppend
	}
	return flag
}

// next draws the next op.
func (g *fsGen) next() Op {
	o := g.draw()
	if o.Mutating() {
		g.past = append(g.past, o)
		if len(g.past) > 6 {
			g.past = g.past[1:]
		}
	}
	return o
}

// planUseAfterMove scripts the history "build a chain of directories, move or remove one of its upper links,
// then create things at the old paths again": whatever an implementation remembers about a path (a verified
// parent, a cached record) has to be forgotten when an ANCESTOR of that path goes away, not only the path itself.
func (g *fsGen) planUseAfterMove() {
	c := g.t.C
	d := 2 + c.Draw(2)
	var chain []string
	p := ""
	for i := 0; i < d; i++ {
		p = path.Join(p, g.alpha[c.Draw(len(g.alpha))])
		chain = append(chain, p)
		g.script = append(g.script, Op{Kind: "Mkdir", P: p, Perm: 0755})
	}
	leafDir := chain[d-1]
	if c.Chance(1, 2) {
		g.script = append(g.script, Op{Kind: "WriteFullFile", P: path.Join(leafDir, g.alpha[c.Draw(len(g.alpha))]), Perm: 0644, Data: []byte("x")})
	} else {
		g.script = append(g.script, Op{Kind: "Mkdir", P: path.Join(leafDir, g.alpha[c.Draw(len(g.alpha))]), Perm: 0755})
	}
	anc := chain[c.Draw(d-1)]
	if c.Chance(2, 3) {
		g.script = append(g.script, Op{Kind: "Rename", P: anc, Q: "moved-" + g.alpha[0]})
	} else {
		g.script = append(g.script, Op{Kind: "RemoveAll", P: anc})
	}
	for i, n := 0, 1+c.Draw(3); i < n; i++ {
		q := path.Join(leafDir, g.alpha[c.Draw(len(g.alpha))])
		switch c.Draw(4) {
		case 0:
			g.script = append(g.script, Op{Kind: "Mkdir", P: q, Perm: 0755})
		case 1:
			g.script = append(g.script, Op{Kind: "WriteFullFile", P: q, Perm: 0644, Data: []byte("y")})
		case 2:
			g.script = append(g.script, Op{Kind: "OpenFile", P: q, Flag: hackpadfs.FlagWriteOnly | hackpadfs.FlagCreate, Perm: 0600, Data: []byte("z")})
		default:
			g.script = append(g.script, Op{Kind: "MkdirAll", P: q, Perm: 0700})
		}
	}
}

func (g *fsGen) draw() Op {
	g.step++
	c := g.t.C
	if g.step == 1 && c.Chance(1, 10) {
		g.planUseAfterMove()
	}
	if len(g.script) > 0 {
		o := g.script[0]
		g.script = g.script[1:]
		return o
	}
	if n := len(g.past); n > 1 && (g.past[n-1].Kind == "Rename" || g.past[n-1].Kind == "RemoveAll" || g.past[n-1].Kind == "Remove") && c.Chance(1, 2) {
		// right after a rename or removal: an earlier operation whose path lay below what was just moved away, again
		moved := g.past[n-1].P
		var below []Op
		for _, o := range g.past[:n-1] {
			if strings.HasPrefix(o.P, moved+"/") {
				below = append(below, o)
			}
		}
		if len(below) > 0 {
			o := below[c.Draw(len(below))]
			if c.Chance(1, 2) {
				o.P = path.Join(path.Dir(o.P), g.name())
			}
			return o
		}
	}
	if len(g.past) > 0 && c.Chance(1, 8) {
		// an echo: an earlier operation again, at the same path or at a sibling of it. After the namespace changed in
		// between (an ancestor renamed or removed) this is what trips over anything remembered from the first time
		o := g.past[c.Draw(len(g.past))]
		if c.Chance(1, 2) && o.P != "." {
			o.P = path.Join(path.Dir(o.P), g.name())
		}
		if o.Kind == "Chtimes" {
			o.Mtime = int64(1000000000 + 1000*g.step + c.Draw(500))
		}
		return o
	}
	k := g.kinds[c.Weighted(g.weight...)]
	o := Op{Kind: k, P: g.path()}
	switch k {
	case "Mkdir", "MkdirAll":
		o.Perm = g.perm()
	case "OpenFile":
		o.Flag = g.flags()
		o.Perm = g.perm()
		if c.Chance(2, 3) {
			o.Data = g.data()
		}
	case "WriteFullFile":
		o.Perm = g.perm()
		o.Data = g.data()
	case "Rename":
		switch c.Weighted(6, 1, 1) {
		case 0:
			o.Q = g.path()
		case 1:
			o.Q = o.P
		default: // destination inside source
			o.Q = path.Join(o.P, g.name())
		}
	case "Chmod":
		o.Perm = g.perm()
	case "Chtimes":
		o.Mtime = int64(1000000000 + 1000*g.step + c.Draw(500))
		if c.Chance(1, 6) {
			o.Mtime = 0 // zero time.Time for the modification time: unchanged
		}
	}
	return o
}

// ---- mtime pin tracking -----------------------------------------------------------------------------------

type pinTracker map[string]int64

func related(a, b string) bool { // a is ancestor-or-equal or descendant of b
	if a == "." || b == "." || a == b {
		return true
	}
	return strings.HasPrefix(a, b+"/") || strings.HasPrefix(b, a+"/")
}

// update adjusts the set of paths whose mtime is pinned by Chtimes, after a successful op.
func (p pinTracker) update(o Op, ok bool) {
	switch {
	case o.Kind == "Chtimes":
		if ok && o.Mtime != 0 {
			p[o.P] = o.Mtime
		}
	case o.Kind == "Chmod" || !o.Mutating():
	case !ok:
		// a failed mutation may still have touched something on the way (MkdirAll, RemoveAll)
		for k := range p {
			if related(k, o.P) || (o.Kind == "Rename" && related(k, o.Q)) {
				delete(p, k)
			}
		}
	case o.Kind == "Rename":
		moved := map[string]int64{}
		for k, v := range p {
			if k == o.P || strings.HasPrefix(k, o.P+"/") {
				moved[o.Q+strings.TrimPrefix(k, o.P)] = v
			}
		}
		for k := range p {
			if related(k, o.P) || related(k, o.Q) {
				delete(p, k)
			}
		}
		if o.P != "." && o.Q != "." {
			for k, v := range moved {
				p[k] = v
			}
		}
	default:
		for k := range p {
			if related(k, o.P) {
				delete(p, k)
			}
		}
	}
}

// scribble overwrites a buffer the harness has just handed to a write call: a writer must not retain its
// argument (io.Writer), so what the caller does with the buffer afterwards must not show in the file.
func scribble(b []byte) {
	for i := range b {
		b[i] ^= 0xa5
	}
}
