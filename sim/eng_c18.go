package sim

import (
	"context"
	"errors"
	"fmt"
	"strings"
	"time"

	"github.com/hack-pad/hackpadfs"
	"github.com/hack-pad/hackpadfs/keyvalue"
	"github.com/hack-pad/hackpadfs/keyvalue/blob"
	"github.com/hack-pad/hackpadfs/mem"
)

// txnsim (C18): call sequences on the two transaction implementations against a map model, and
// concurrent transactions on the real in-memory store under the scheduler.

var errHandler = errors.New("verif: handler error")

func tagRecord(tag int64) keyvalue.FileRecord {
	data := blob.NewBytes([]byte(fmt.Sprintf("v%d", tag)))
	return keyvalue.NewBaseFileRecord(int64(data.Len()), time.Unix(tag, 0), 0644, nil,
		func() (blob.Blob, error) { return data, nil }, nil)
}

func recordTag(r keyvalue.FileRecord) int64 {
	if r == nil {
		return -1
	}
	return r.ModTime().Unix()
}

type txnCall struct {
	kind    string // Get GetHandler Set SetHandler Abort Commit
	key     string
	handler string // ok | fail | abort
	tag     int64
}

func (c txnCall) String() string {
	switch c.kind {
	case "Get":
		return "Get(" + c.key + ")"
	case "GetHandler":
		return "GetHandler(" + c.key + ", " + c.handler + ")"
	case "Set":
		return fmt.Sprintf("Set(%s, v%d)", c.key, c.tag)
	case "SetHandler":
		return fmt.Sprintf("SetHandler(%s, v%d, %s)", c.key, c.tag, c.handler)
	case "Del":
		return "Set(" + c.key + ", nil)"
	}
	return c.kind + "()"
}

var txnKeys = []string{"k1", "k2", "k3"}

func genTxnCalls(t *T, n int, tagBase int64, endings bool) []txnCall {
	c := t.C
	var calls []txnCall
	for i := 0; i < n; i++ {
		call := txnCall{key: txnKeys[c.Draw(len(txnKeys))], tag: tagBase + int64(i) + 1}
		switch c.Weighted(4, 4, 2, 2, 1, 2) {
		case 5:
			// a deleting Set (nil record); the concurrent mode judges by tags and keeps to Gets instead
			call.kind = "Get"
			if endings {
				call.kind = "Del"
			}
		case 0:
			call.kind = "Set"
		case 1:
			call.kind = "Get"
		case 2:
			call.kind = "GetHandler"
			call.handler = drawHandler(c, endings)
		case 3:
			call.kind = "SetHandler"
			call.handler = drawHandler(c, endings)
		default:
			if !endings {
				call.kind = "Get"
			} else {
				call.kind = "Abort"
			}
		}
		calls = append(calls, call)
	}
	return calls
}

// drawHandler: what a handler does: succeed, fail, abort, or (sequential mode) "perform more operations" -- one
// further Get of the same key on the transaction it is handed -- and then succeed (nest) or fail (nestfail).
func drawHandler(c *Stream, nested bool) string {
	if nested {
		return []string{"ok", "fail", "abort", "nest", "nestfail"}[c.Weighted(6, 4, 2, 1, 1)]
	}
	return []string{"ok", "fail", "abort"}[c.Weighted(3, 2, 1)]
}

// txnModel is the ~20 line map model of one transaction over a store.
type txnModel struct {
	store   map[string]int64
	aborted bool
	want    []struct {
		tag int64 // -1: not found; -2: not judged
		err string
	}
}

func (m *txnModel) apply(c txnCall, injected bool) {
	w := struct {
		tag int64
		err string
	}{tag: -2}
	if m.aborted {
		w.err = "aborted"
		m.want = append(m.want, w)
		return
	}
	switch c.kind {
	case "Get", "GetHandler":
		switch {
		case injected:
			w.err = "injected"
		default:
			if v, ok := m.store[c.key]; ok {
				w.tag = v
			} else {
				w.tag, w.err = -1, "notexist"
			}
		}
	case "Set", "SetHandler":
		if injected {
			w.err = "injected"
		} else {
			m.store[c.key] = c.tag
		}
	case "Del":
		if injected {
			w.err = "injected"
		} else {
			delete(m.store, c.key)
		}
	}
	if (c.handler == "fail" || c.handler == "nestfail") && w.err == "" {
		w.err = "handler"
	}
	if c.handler == "abort" {
		m.aborted = true
		if w.err == "" {
			w.err = "handler"
		}
	}
	m.want = append(m.want, w)
}

func errKind(err error) string {
	switch {
	case err == nil:
		return ""
	case errors.Is(err, errHandler):
		return "handler"
	case errors.Is(err, errInjected):
		return "injected"
	case errors.Is(err, hackpadfs.ErrNotExist):
		return "notexist"
	case errors.Is(err, context.Canceled):
		return "aborted"
	}
	return "other:" + err.Error()
}

// nestHook, when set, is called by "nest"/"nestfail" handlers around their further Get (sequential mode only:
// the one client task sets it before the call and reads what it recorded afterwards).
var nestHook func(txn keyvalue.Transaction, key string)

func handlerFor(kind string) keyvalue.OpHandler {
	return handlerForKey(kind, "")
}

func handlerForKey(kind, key string) keyvalue.OpHandler {
	return keyvalue.OpHandlerFunc(func(txn keyvalue.Transaction, res keyvalue.OpResult) error {
		switch kind {
		case "nest", "nestfail":
			if nestHook != nil {
				nestHook(txn, key)
			}
			if kind == "nestfail" {
				return errHandler
			}
			return nil
		case "fail":
			return errHandler
		case "abort":
			_ = txn.Abort()
			return errHandler
		}
		return nil
	})
}

// runTxnCalls drives one transaction through calls (none of which is Commit) and returns the ids.
func runTxnCalls(txn keyvalue.Transaction, calls []txnCall, between func()) []keyvalue.OpID {
	var ids []keyvalue.OpID
	for _, c := range calls {
		if between != nil {
			between()
		}
		switch c.kind {
		case "Get":
			ids = append(ids, txn.Get(c.key))
		case "GetHandler":
			ids = append(ids, txn.GetHandler(c.key, handlerForKey(c.handler, c.key)))
		case "Set":
			r := tagRecord(c.tag)
			d, _ := r.Data()
			ids = append(ids, txn.Set(c.key, r, d))
		case "SetHandler":
			r := tagRecord(c.tag)
			d, _ := r.Data()
			ids = append(ids, txn.SetHandler(c.key, r, d, handlerForKey(c.handler, c.key)))
		case "Del":
			ids = append(ids, txn.Set(c.key, nil, nil))
		case "Abort":
			_ = txn.Abort()
			ids = append(ids, -1)
		}
	}
	return ids
}

// readAll opens a fresh transaction and reads every key (also proves the store was released).
func readAll(open func() (keyvalue.Transaction, error)) (map[string]int64, error) {
	txn, err := open()
	if err != nil {
		return nil, fmt.Errorf("opening a fresh transaction: %w", err)
	}
	for _, k := range txnKeys {
		txn.Get(k)
	}
	res, err := txn.Commit(context.Background())
	if err != nil {
		return nil, fmt.Errorf("committing a fresh transaction: %w", err)
	}
	if len(res) != len(txnKeys) {
		return nil, fmt.Errorf("fresh transaction: %d results for %d calls", len(res), len(txnKeys))
	}
	out := map[string]int64{}
	for i, k := range txnKeys {
		if res[i].Err == nil {
			out[k] = recordTag(res[i].Record)
		}
	}
	return out, nil
}

func fmtStore(m map[string]int64) string {
	var l []string
	for _, k := range txnKeys {
		if v, ok := m[k]; ok {
			l = append(l, fmt.Sprintf("%s=v%d", k, v))
		}
	}
	return "{" + strings.Join(l, " ") + "}"
}

func runC18(t *T) {
	defer beginTrial(t, false)()
	if t.C.Chance(1, 4) {
		c18Concurrent(t)
		return
	}
	c18Sequential(t)
}

func c18Sequential(t *T) {
	c := t.C
	impl := c.Draw(2) // 0: real in-memory store, 1: serial fallback over SimStore
	var open func() (keyvalue.Transaction, error)
	var sim *SimStore
	implName := "mem-transaction"
	if impl == 0 {
		st := mem.NewStoreForVerif()
		open = func() (keyvalue.Transaction, error) {
			return st.Transaction(keyvalue.TransactionOptions{Mode: keyvalue.TransactionReadWrite})
		}
	} else {
		implName = "serial-fallback"
		sim = newSimStore(t, c.Chance(1, 2))
		// a plain Store need not look at the context it is handed
		sim.ignoreCtx = c.Chance(1, 2)
		open = func() (keyvalue.Transaction, error) {
			return keyvalue.TransactionOrSerial(sim, keyvalue.TransactionOptions{Mode: keyvalue.TransactionReadWrite})
		}
	}
	ntx := 1 + c.Draw(3)
	t.Logf("mode=sequential impl=%s transactions=%d", implName, ntx)
	inBubble(t, 4000, func(s *Sched) {
		s.Go("client", func() {
			model := map[string]int64{}
			var prev keyvalue.Transaction
			for x := 0; x < ntx; x++ {
				ncalls := c.Draw(8)
				if c.Chance(1, 10) {
					ncalls = 12 + c.Draw(30) // a long transaction: whatever is sized for the usual handful has to grow
				}
				calls := genTxnCalls(t, ncalls, int64(100*(x+1)), true)
				ending := []string{"Commit", "Abort", "Abort+Commit", "Commit+Abort", "Abort+Abort", "Commit(cancelled ctx)", "Commit(cancelled ctx)+Abort"}[c.Weighted(6, 2, 1, 1, 1, 1, 1)]
				var plan *faultPlan
				if sim != nil && c.Chance(1, 3) {
					plan = &faultPlan{t: t, at: c.Draw(6), armed: true}
					sim.plan = plan
				}
				txn, err := open()
				if err != nil {
					t.Fail("open", "C18:"+implName+":open-fails", err.Error())
				}
				m := &txnModel{store: model}
				var names []string
				base := 0
				if plan != nil {
					base = plan.calls
				}
				_ = base
				// run the calls one by one so the model knows whether the injected fault fired in each
				var ids []keyvalue.OpID
				var flat []txnCall // the calls in the order they were made, those made inside handlers included
				hasNested := false
				for _, call := range calls {
					if prev != nil && c.Chance(1, 5) {
						// a straggling call on the transaction that ended before this one was opened: no effect on
						// the store, none on this transaction's results
						st := txnCall{kind: []string{"Set", "Get", "Del"}[c.Draw(3)], key: txnKeys[c.Draw(len(txnKeys))], tag: int64(9000 + x)}
						armed := plan != nil && plan.armed
						if armed {
							plan.armed = false // the injected fault is meant for this transaction's own calls
						}
						runTxnCalls(prev, []txnCall{st}, nil)
						if armed {
							plan.armed = true
						}
						names = append(names, "[straggler on the previous transaction: "+st.String()+"]")
						t.Stat("c18:straggler-call")
					}
					firedBefore := plan != nil && plan.fired > 0
					abortedBefore := m.aborted
					// a handler that performs a further operation: the outer call's id comes first (it was made first)
					nestedRan, firedAtHandler, nestedID := false, false, keyvalue.OpID(-1)
					nestHook = func(htxn keyvalue.Transaction, key string) {
						nestedRan = true
						firedAtHandler = plan != nil && plan.fired > 0
						nestedID = htxn.Get(key)
					}
					outerIDs := runTxnCalls(txn, []txnCall{call}, nil)
					nestHook = nil
					ids = append(ids, outerIDs...)
					flat = append(flat, call)
					firedNow := plan != nil && plan.fired > 0 && !firedBefore
					injected := firedNow
					if nestedRan {
						injected = firedAtHandler && !firedBefore
					}
					if call.kind == "Abort" {
						m.aborted = true
						m.want = append(m.want, struct {
							tag int64
							err string
						}{-2, "abort-call"})
					} else {
						m.apply(call, injected)
					}
					names = append(names, call.String())
					if call.handler == "nest" || call.handler == "nestfail" {
						// the model: the handler runs unless the transaction was over already, and its Get is one more call
						if nestedRan == abortedBefore {
							t.Fail("results", "C18:"+implName+":handler-run", fmt.Sprintf("%s after %v: handler ran=%v, transaction aborted before=%v", call, names, nestedRan, abortedBefore))
						}
						if !abortedBefore {
							hasNested = true
							nc := txnCall{kind: "Get", key: call.key}
							ids = append(ids, nestedID)
							flat = append(flat, nc)
							m.apply(nc, firedNow && !injected)
							names = append(names, "[inside that handler: "+nc.String()+"]")
							t.Stat("c18:nested-call-in-handler")
						}
					}
				}
				calls = flat
				if len(calls) >= 16 {
					t.Stat("c18:long-transaction")
				}
				t.Logf("txn %d: %v then %s", x, names, ending)
				sig := "C18:" + implName
				switch ending {
				case "Commit", "Commit+Abort":
					res, err := txn.Commit(context.Background())
					if !m.aborted {
						if err != nil {
							t.Fail("commit", sig+":commit-error", fmt.Sprintf("Commit of %v failed: %v", names, err))
						}
						if len(res) != len(calls) {
							t.Fail("results", sig+":result-count", fmt.Sprintf("Commit returned %d results for %d calls %v", len(res), len(calls), names))
						}
						if hasNested && len(res) == len(calls) {
							// with calls made inside handlers the results are matched by operation id: which of the two
							// comes first in the slice is not something the statement settles, one result per id is
							byID := make([]keyvalue.OpResult, len(res))
							seen := map[keyvalue.OpID]bool{}
							for _, r := range res {
								if r.Op < 0 || int(r.Op) >= len(res) || seen[r.Op] {
									t.Fail("results", sig+":op-id-set", fmt.Sprintf("results of %v: operation id %d out of range or twice", names, r.Op))
								}
								seen[r.Op] = true
								byID[r.Op] = r
							}
							res = byID
						}
						for i, r := range res {
							w := m.want[i]
							if r.Op != ids[i] || int(r.Op) != i {
								t.Fail("results", sig+":op-id", fmt.Sprintf("result %d of %v has op id %d; the call returned %d", i, names, r.Op, ids[i]))
							}
							if errKind(r.Err) != w.err {
								t.Fail("results", sig+":result-error:"+calls[i].kind, fmt.Sprintf("result %d (%s) of %v: error %v, model %q", i, calls[i], names, r.Err, w.err))
							}
							if w.tag >= 0 && recordTag(r.Record) != w.tag {
								t.Fail("results", sig+":get-value", fmt.Sprintf("result %d (%s) of %v: got v%d, model v%d (store %s)", i, calls[i], names, recordTag(r.Record), w.tag, fmtStore(model)))
							}
						}
					} else if err == nil && len(res) != len(calls) {
						t.Fail("results", sig+":aborted-commit-result-count", fmt.Sprintf("Commit after an abort returned nil error and %d results for %d calls", len(res), len(calls)))
					}
					if ending == "Commit+Abort" {
						_ = txn.Abort()
					}
				case "Abort":
					_ = txn.Abort()
				case "Abort+Commit":
					_ = txn.Abort()
					_, _ = txn.Commit(context.Background())
				case "Abort+Abort":
					_ = txn.Abort()
					_ = txn.Abort()
				case "Commit(cancelled ctx)", "Commit(cancelled ctx)+Abort":
					// whatever Commit makes of a context that is already cancelled (results or an error), the
					// transaction is over and the store has to be usable afterwards
					cctx, cancel := context.WithCancel(context.Background())
					cancel()
					_, _ = txn.Commit(cctx)
					if ending == "Commit(cancelled ctx)+Abort" {
						_ = txn.Abort()
					}
				}
				// stragglers only on a transaction that is over for certain: whether a Commit that failed because of
				// its context ends a (lock-free) serial transaction is the implementation's choice
				prev = txn
				if ending == "Commit(cancelled ctx)" {
					prev = nil
				}
				if sim != nil {
					sim.plan = nil
				}
				// the store is usable and holds exactly what the model holds
				got, err := readAll(open)
				if err != nil {
					t.Fail("released", sig+":not-usable-after:"+ending, fmt.Sprintf("after %v + %s: %v", names, ending, err))
				}
				if fmtStore(got) != fmtStore(model) {
					t.Fail("store", sig+":store-differs:"+ending, fmt.Sprintf("after %v + %s the store holds %s, model %s", names, ending, fmtStore(got), fmtStore(model)))
				}
				t.State(fmtStore(model))
			}
			t.NonTrivial()
		})
		s.Run()
	})
}

// c18Concurrent: 2-3 transactions on the real in-memory store as tasks; no transaction may observe
// effects of another one that had not ended before it started.
func c18Concurrent(t *T) {
	c := t.C
	st := mem.NewStoreForVerif()
	ntx := 2 + c.Draw(2)
	type txlog struct {
		calls    []txnCall
		seen     []int64 // per call: tag seen by Get (-1 missing, -2 n/a)
		started  int
		ended    int
		readOnly bool
	}
	logs := make([]*txlog, ntx)
	for i := range logs {
		logs[i] = &txlog{calls: genTxnCalls(t, 1+c.Draw(5), int64(100*(i+1)), false)}
		for j := range logs[i].calls {
			if logs[i].calls[j].handler == "abort" {
				logs[i].calls[j].handler = "fail" // an abort inside a handler ends the transaction early; endings are the sequential mode's subject
			}
		}
		// a third of the transactions only read and are opened read-only, the way keyvalue.FS opens its lookups
		if c.Chance(1, 3) {
			logs[i].readOnly = true
			for j := range logs[i].calls {
				switch logs[i].calls[j].kind {
				case "Set":
					logs[i].calls[j].kind = "Get"
				case "SetHandler":
					logs[i].calls[j].kind = "GetHandler"
				}
			}
			t.Stat("c18:read-only-transaction")
		}
	}
	t.Logf("mode=concurrent transactions=%d", ntx)
	clock := 0
	inBubble(t, 4000, func(s *Sched) {
		for i := 0; i < ntx; i++ {
			i := i
			s.Go(fmt.Sprintf("txn%d", i), func() {
				l := logs[i]
				mode := keyvalue.TransactionReadWrite
				if l.readOnly {
					mode = keyvalue.TransactionReadOnly
				}
				txn, err := st.Transaction(keyvalue.TransactionOptions{Mode: mode})
				if err != nil {
					t.Fail("open", "C18:concurrent:open-fails", err.Error())
				}
				clock++
				l.started = clock
				t.Logf("txn%d starts at %d: %v", i, l.started, l.calls)
				runTxnCalls(txn, l.calls, func() { yield(fmt.Sprintf("txn%d-next-call", i)) })
				yield(fmt.Sprintf("txn%d-before-commit", i))
				res, err := txn.Commit(context.Background())
				clock++
				l.ended = clock
				if err == nil {
					for j, r := range res {
						if j < len(l.calls) && strings.HasPrefix(l.calls[j].kind, "Get") {
							v := int64(-1)
							if r.Record != nil {
								v = recordTag(r.Record)
							}
							l.seen = append(l.seen, v)
						} else {
							l.seen = append(l.seen, -2)
						}
					}
				}
				t.Logf("txn%d ends at %d, saw %v", i, l.ended, l.seen)
			})
		}
		s.Run()
	})
	if t.Failed() {
		return
	}
	// isolation: with transactions ordered by start, each Get sees its own latest Set or the value left by
	// the transactions that ended before it started, never one written by a transaction that overlapped it
	for i, l := range logs {
		own := map[string]int64{}
		for j, call := range l.calls {
			if call.kind == "Set" || call.kind == "SetHandler" {
				own[call.key] = call.tag
			}
			if j >= len(l.seen) || l.seen[j] == -2 {
				continue
			}
			seen := l.seen[j]
			if v, ok := own[call.key]; ok {
				if seen != v {
					t.failNoPanic("isolation", "C18:concurrent:lost-own-write", fmt.Sprintf("txn%d %s saw v%d although it had written v%d itself", i, call, seen, v))
				}
				continue
			}
			if seen < 0 {
				continue
			}
			// who wrote it?
			for k, other := range logs {
				if k == i {
					continue
				}
				for _, oc := range other.calls {
					if (oc.kind == "Set" || oc.kind == "SetHandler") && oc.tag == seen && other.ended > l.started {
						t.failNoPanic("isolation", "C18:concurrent:partial-effect-observed", fmt.Sprintf("txn%d (started %d) %s saw v%d, written by txn%d which only ended at %d", i, l.started, call, seen, k, other.ended))
					}
				}
			}
		}
	}
	t.NonTrivial()
}

func init() {
	Register(&Engine{
		Prop: "C18", Name: "txnsim", Run: runC18,
		Trials: map[string]int{"quick": 100000, "thorough": 1000000},
		Rule:   "sequential mode (3 of 4 trials): 1-3 transactions of 0-7 calls (Get/GetHandler/Set/SetHandler/Abort over 3 keys; handlers that succeed, fail or abort) with an ending drawn from Commit, Abort, Abort+Commit, Commit+Abort, Abort+Abort, on the real in-memory store's transactions and on the serial fallback over a SimStore (one injected Get/Set fault in a third of those), judged against a map model: result count, order, op ids, values, errors; after every ending a fresh transaction must open, read the model's contents and commit (a store left locked is a deterministic deadlock verdict through the lock gates, a double unlock kills the worker and is attributed to the trial); concurrent mode: 2-3 transactions on the real in-memory store as tasks under the seeded scheduler with gates before the store lock and between calls, judged for isolation; non-trivial = the judged phase was reached; distinct = event-log hash One transaction in ten has 12-41 calls; handlers may perform a further Get on the transaction (results are then matched by operation id).",
		Components: map[string][]string{
			"real": {"mem store transaction (real mutex, probed by TryLock)", "keyvalue.TransactionOrSerial / unsafeSerialTransaction"},
			"stub": {"SimStore under the serial fallback"},
		},
	})
}

func init() {
	RegisterProbe("c18-abort-then-commit", func(t *T) {
		defer beginTrial(t, false)()
		st := mem.NewStoreForVerif()
		inBubble(t, 500, func(s *Sched) {
			s.Go("client", func() {
				txn, err := st.Transaction(keyvalue.TransactionOptions{Mode: keyvalue.TransactionReadWrite})
				must(t, err)
				txn.Get("k1")
				_ = txn.Abort()
				_, _ = txn.Commit(context.Background()) // used to unlock the store a second time: fatal error
				open := func() (keyvalue.Transaction, error) {
					return st.Transaction(keyvalue.TransactionOptions{Mode: keyvalue.TransactionReadWrite})
				}
				if _, err := readAll(open); err != nil {
					t.Fail("released", "C18:mem-transaction:not-usable-after:Abort+Commit", err.Error())
				}
			})
			s.Run()
		})
	})
}
