package choice

import (
	"fmt"
	"os"
)

// The choice stream: the single source of every decision of a trial.
//
// Search mode: a PRNG seeded from (base seed, property, trial index); every value drawn is logged.
// Replay mode: a recorded sequence; when it runs out, or a recorded value is out of range for the
// current n, 0 is returned. Harnesses are written so that 0 always means the simplest alternative.

type Stream struct {
	replay   bool
	rec      []uint32 // replay input
	pos      int
	log      []uint32 // everything handed out (both modes)
	s0, s1   uint64   // xoroshiro128+ state
	maxDraws int
	over     bool     // more than maxDraws draws: everything returns 0 from then on
	sink     *os.File // optional: every draw is written unbuffered (crash attribution re-runs)
}

func splitmix(x *uint64) uint64 {
	*x += 0x9e3779b97f4a7c15
	z := *x
	z = (z ^ (z >> 30)) * 0xbf58476d1ce4e5b9
	z = (z ^ (z >> 27)) * 0x94d049bb133111eb
	return z ^ (z >> 31)
}

func MixSeed(base uint64, prop string, trial uint64) uint64 {
	x := base*0x9e3779b97f4a7c15 + 0x1234567
	for i := 0; i < len(prop); i++ {
		x = (x ^ uint64(prop[i])) * 0x100000001b3
	}
	x ^= trial * 0xd6e8feb86659fd93
	return splitmix(&x)
}

func NewSearchStream(seed uint64) *Stream {
	s := &Stream{maxDraws: 200000}
	x := seed
	s.s0 = splitmix(&x)
	s.s1 = splitmix(&x)
	if s.s0 == 0 && s.s1 == 0 {
		s.s1 = 1
	}
	return s
}

func NewReplayStream(rec []uint32) *Stream {
	return &Stream{replay: true, rec: rec, maxDraws: 200000}
}

func (s *Stream) next() uint64 {
	a, b := s.s0, s.s1
	r := a + b
	b ^= a
	s.s0 = (a<<24 | a>>40) ^ b ^ (b << 16)
	s.s1 = b<<37 | b>>27
	return r
}

// Draw returns a value in [0,n). n<=1 returns 0 without consuming anything.
func (s *Stream) Draw(n int) int {
	if n <= 1 {
		return 0
	}
	if len(s.log) >= s.maxDraws {
		s.over = true
		return 0
	}
	var v uint32
	if s.replay {
		if s.pos < len(s.rec) {
			v = s.rec[s.pos]
			s.pos++
			if int(v) >= n {
				v = 0
			}
		}
	} else {
		v = uint32((s.next() >> 11) % uint64(n))
	}
	s.log = append(s.log, v)
	if s.sink != nil {
		fmt.Fprintf(s.sink, "%d\n", v)
	}
	return int(v)
}

// Chance is true with probability num/den; a drawn 0 always means false.
func (s *Stream) Chance(num, den int) bool {
	if num <= 0 {
		return false
	}
	return s.Draw(den) >= den-num
}

// Range returns a value in [lo,hi] (inclusive); 0 draws lo.
func (s *Stream) Range(lo, hi int) int {
	if hi <= lo {
		return lo
	}
	return lo + s.Draw(hi-lo+1)
}

// Weighted picks an index with the given weights; index 0 is the "simplest".
func (s *Stream) Weighted(w ...int) int {
	tot := 0
	for _, x := range w {
		tot += x
	}
	v := s.Draw(tot)
	for i, x := range w {
		if v < x {
			return i
		}
		v -= x
	}
	return 0
}

func (s *Stream) Log() []uint32 { return append([]uint32(nil), s.log...) }

// Perm returns a permutation of 0..n-1; all-zero draws give the identity.
func (s *Stream) Perm(n int) []int {
	p := make([]int, n)
	for i := range p {
		p[i] = i
	}
	for i := 0; i < n-1; i++ {
		j := i + s.Draw(n-i)
		p[i], p[j] = p[j], p[i]
	}
	return p
}

// SetSink makes the stream write every draw, unbuffered, to f (crash attribution re-runs).
func (s *Stream) SetSink(f *os.File) { s.sink = f }
