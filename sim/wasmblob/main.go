//go:build js && wasm

// Command wasmblob runs the C19 blob engine against the typed-array blob (idbblob) under node.
// usage: wasmblob -base <seed> -from <i> -to <j>   |   wasmblob -replay 1,2,3
// One JSON line per trial that ends in a violation, then a summary line.
package main

import (
	"encoding/json"
	"flag"
	"fmt"
	"os"
	"strconv"
	"strings"

	"github.com/hack-pad/hackpadfs/indexeddb/idbblob"
	"github.com/hack-pad/hackpadfs/keyvalue/blob"

	"verif/sim/blobmodel"
	"verif/sim/choice"
)

type abort struct{}

type rep struct {
	trace []string
	evh   uint64
	evn   int
	kind  string
	sig   string
	det   string
}

func (r *rep) Logf(format string, a ...interface{}) {
	s := fmt.Sprintf(format, a...)
	for i := 0; i < len(s); i++ {
		r.evh = (r.evh ^ uint64(s[i])) * 1099511628211
	}
	r.evn++
	if len(r.trace) < 200 {
		r.trace = append(r.trace, s)
	}
}
func (r *rep) Fail(kind, sig, detail string) {
	if r.sig == "" {
		r.kind, r.sig, r.det = kind, sig, detail
		r.Logf("VIOLATION kind=%s sig=%s :: %s", kind, sig, detail)
	}
	panic(abort{})
}
func (r *rep) IsAbort(v interface{}) bool { _, ok := v.(abort); return ok }

type result struct {
	Trial     uint64   `json:"trial"`
	Seed      uint64   `json:"seed"`
	Kind      string   `json:"kind,omitempty"`
	Signature string   `json:"signature,omitempty"`
	Detail    string   `json:"detail,omitempty"`
	Choices   []uint32 `json:"choices,omitempty"`
	Trace     []string `json:"trace,omitempty"`
	EventHash string   `json:"event_hash"`
}

func runOne(c *choice.Stream, trial, seed uint64) *result {
	r := &rep{evh: 14695981039346656037}
	func() {
		defer func() {
			if v := recover(); v != nil {
				if _, ok := v.(abort); !ok {
					r.kind, r.sig, r.det = "panic", "C19:idbblob:harness-level-panic", fmt.Sprint(v)
				}
			}
		}()
		blobmodel.Run(c, r, "idbblob", func(data []byte) blob.Blob {
			return idbblob.FromBlob(blob.NewBytes(append([]byte(nil), data...)))
		}, false, false)
	}()
	res := &result{Trial: trial, Seed: seed, Kind: r.kind, Signature: r.sig, Detail: r.det, EventHash: fmt.Sprintf("%016x/%d", r.evh, r.evn)}
	if r.sig != "" {
		res.Choices = c.Log()
		res.Trace = r.trace
	}
	return res
}

func main() {
	base := flag.Uint64("base", 1, "base seed")
	from := flag.Uint64("from", 0, "first trial")
	to := flag.Uint64("to", 100, "one past the last trial")
	replay := flag.String("replay", "", "comma separated choices")
	hashes := flag.Bool("hashes", false, "print every trial's event hash")
	flag.Parse()
	enc := json.NewEncoder(os.Stdout)
	if *replay != "" || flag.NArg() > 0 && flag.Arg(0) == "replay-empty" {
		var rec []uint32
		for _, f := range strings.Split(*replay, ",") {
			if f == "" {
				continue
			}
			n, _ := strconv.ParseUint(f, 10, 32)
			rec = append(rec, uint32(n))
		}
		res := runOne(choice.NewReplayStream(rec), 0, 0)
		res.Choices = rec
		enc.Encode(res)
		return
	}
	viol, n := 0, 0
	distinct := map[string]bool{}
	for i := *from; i < *to; i++ {
		seed := choice.MixSeed(*base, "C19-wasm", i)
		fmt.Printf("{\"start\":true,\"trial\":%d,\"seed\":%d}\n", i, seed)
		res := runOne(choice.NewSearchStream(seed), i, seed)
		n++
		distinct[res.EventHash] = true
		if res.Signature != "" {
			viol++
			enc.Encode(res)
		} else if *hashes {
			enc.Encode(res)
		}
	}
	fmt.Printf("{\"summary\":true,\"trials\":%d,\"violations\":%d,\"distinct\":%d}\n", n, viol, len(distinct))
}
