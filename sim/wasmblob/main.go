//go:build js && wasm

// Command wasmblob runs the C19 blob engine against the typed-array blob (idbblob) under node.
// usage: wasmblob -base <seed> -from <i> -to <j>   |   wasmblob -replay 1,2,3
// One JSON line per trial that ends in a violation, then a summary line.
package main

import (
	"encoding/json"
	"flag"
	"fmt"
	"os"
	"strconv"
	"strings"

	"github.com/hack-pad/hackpadfs/indexeddb/idbblob"
	"github.com/hack-pad/hackpadfs/keyvalue/blob"

	"verif/sim/blobmodel"
	"verif/sim/choice"
)

type abort struct{}

type rep struct {
	trace []string
	evh   uint64
	evn   int
	kind  string
	sig   string
	det   string
}

func (r *rep) Logf(format string, a ...interface{}) {
	s := fmt.Sprintf(format, a...)
	for i := 0; i < len(s); i++ {
		r.evh = (r.evh ^ uint64(s[i])) * 1099511628211
	}
	r.evn++
	if len(r.trace) < 200 {
		r.trace = append(r.trace, s)
	}
}
func (r *rep) Fail(kind, sig, detail string) {
	if r.sig == "" {
		r.kind, r.sig, r.det = kind, sig, detail
		r.Logf("VIOLATION kind=%s sig=%s :: %s", kind, sig, detail)
	}
	panic(abort{})
}
func (r *rep) IsAbort(v interface{}) bool { _, ok := v.(abort); return ok }

type result struct {
	Trial     uint64   `json:"trial"`
	Seed      uint64   `json:"seed"`
	Kind      string   `json:"kind,omitempty"`
	Signature string   `json:"signature,omitempty"`
	Detail    string   `json:"detail,omitempty"`
	Choices   []uint32 `json:"choices,omitempty"`
	Trace     []string `json:"trace,omitempty"`
	EventHash string   `json:"event_hash"`
}

// lenientTruncate: leave views out of the byte comparison once their original was truncated (set by the
// driver while the known finding about the copying Truncate is open).
var lenientTruncate bool

// probeTruncateDetachesViews is the fixed scenario behind that finding: a view taken before a Truncate of
// its original must go on aliasing it.
func probeTruncateDetachesViews() *result {
	res := &result{}
	b := idbblob.FromBlob(blob.NewBytes([]byte("0123456789")))
	v, err := blob.View(b, 2, 8)
	if err != nil {
		res.Kind, res.Signature, res.Detail = "error", "C19:idbblob:probe-error", err.Error()
		return res
	}
	if err := blob.Truncate(b, 5); err != nil {
		res.Kind, res.Signature, res.Detail = "error", "C19:idbblob:probe-error", err.Error()
		return res
	}
	if _, err := blob.Set(b, blob.NewBytes([]byte("XY")), 2); err != nil {
		res.Kind, res.Signature, res.Detail = "error", "C19:idbblob:probe-error", err.Error()
		return res
	}
	if got := string(v.Bytes()); got != "XY4567" {
		res.Kind, res.Signature = "bytes", "C19:idbblob:Truncate:views-detached"
		res.Detail = fmt.Sprintf("b=\"0123456789\"; v=View(b,2,8); Truncate(b,5); Set(b,\"XY\",2): v.Bytes() = %q, a []byte model gives \"XY4567\" (b.Bytes() = %q)", got, string(b.Bytes()))
	}
	return res
}

func runOne(c *choice.Stream, trial, seed uint64) *result {
	r := &rep{evh: 14695981039346656037}
	func() {
		defer func() {
			if v := recover(); v != nil {
				if _, ok := v.(abort); !ok {
					r.kind, r.sig, r.det = "panic", "C19:idbblob:harness-level-panic", fmt.Sprint(v)
				}
			}
		}()
		blobmodel.RunOpt(c, r, "idbblob", func(data []byte) blob.Blob {
			return idbblob.FromBlob(blob.NewBytes(append([]byte(nil), data...)))
		}, false, false, lenientTruncate)
	}()
	res := &result{Trial: trial, Seed: seed, Kind: r.kind, Signature: r.sig, Detail: r.det, EventHash: fmt.Sprintf("%016x/%d", r.evh, r.evn)}
	if r.sig != "" {
		res.Choices = c.Log()
		res.Trace = r.trace
	}
	return res
}

func main() {
	base := flag.Uint64("base", 1, "base seed")
	from := flag.Uint64("from", 0, "first trial")
	to := flag.Uint64("to", 100, "one past the last trial")
	replay := flag.String("replay", "", "comma separated choices")
	hashes := flag.Bool("hashes", false, "print every trial's event hash")
	probe := flag.String("probe", "", "run a fixed scenario instead of the search")
	flag.BoolVar(&lenientTruncate, "lenient-truncate", false, "do not compare views after a Truncate of their original")
	flag.Parse()
	enc := json.NewEncoder(os.Stdout)
	if *probe != "" {
		switch *probe {
		case "truncate-detaches-views":
			enc.Encode(probeTruncateDetachesViews())
		default:
			fmt.Fprintln(os.Stderr, "unknown probe", *probe)
			os.Exit(2)
		}
		return
	}
	if *replay != "" || flag.NArg() > 0 && flag.Arg(0) == "replay-empty" {
		var rec []uint32
		for _, f := range strings.Split(*replay, ",") {
			if f == "" {
				continue
			}
			n, _ := strconv.ParseUint(f, 10, 32)
			rec = append(rec, uint32(n))
		}
		res := runOne(choice.NewReplayStream(rec), 0, 0)
		res.Choices = rec
		enc.Encode(res)
		return
	}
	viol, n := 0, 0
	distinct := map[string]bool{}
	for i := *from; i < *to; i++ {
		seed := choice.MixSeed(*base, "C19-wasm", i)
		fmt.Printf("{\"start\":true,\"trial\":%d,\"seed\":%d}\n", i, seed)
		res := runOne(choice.NewSearchStream(seed), i, seed)
		n++
		distinct[res.EventHash] = true
		if res.Signature != "" {
			viol++
			enc.Encode(res)
		} else if *hashes {
			enc.Encode(res)
		}
	}
	fmt.Printf("{\"summary\":true,\"trials\":%d,\"violations\":%d,\"distinct\":%d}\n", n, viol, len(distinct))
}
