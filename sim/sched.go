package sim

import (
	"fmt"
	"runtime"
	"sort"
	"strings"
	"sync"
	"sync/atomic"
	"testing"
	"testing/synctest"

	"github.com/hack-pad/hackpadfs/verifhook"
)

// The seeded scheduler. Tasks are real goroutines inside a synctest bubble; they park at gates; the
// bubble's root goroutine waits for quiescence, picks one runnable gate from the choice stream and
// releases it. Exactly one task runs between two quiescent points.

type task struct {
	id      int
	name    string
	harness bool
	done    bool
	prio    int
}

type gate struct {
	task  *task
	label string
	ch    chan struct{}
	mu    interface{}
	kind  string
}

type Sched struct {
	t        *T
	mu       sync.Mutex
	rootGID  uint64
	byGID    map[uint64]*task
	tasks    []*task
	parked   []*gate
	aborting bool
	last     *task
	policy   int
	hash     uint64
	steps    int
	maxSteps int
	spawnSeq uint64
	pending  map[uint64]*task // spawn token -> library task
	switches int
	dirty    bool
	pctLeft  int
}

func gid() uint64 {
	var buf [64]byte
	n := runtime.Stack(buf[:], false)
	// "goroutine 123 ["
	s := buf[len("goroutine "):n]
	var id uint64
	for _, c := range s {
		if c < '0' || c > '9' {
			break
		}
		id = id*10 + uint64(c-'0')
	}
	return id
}

// Policies
const (
	polUniform = iota
	polSticky
	polPCT
	polCount
)

func newSched(t *T, maxSteps int) *Sched {
	s := &Sched{t: t, byGID: map[uint64]*task{}, pending: map[uint64]*task{}, maxSteps: maxSteps, hash: 14695981039346656037}
	s.rootGID = gid()
	s.policy = t.C.Draw(polCount)
	if s.policy == polPCT {
		s.pctLeft = 1 + t.C.Draw(3)
	}
	return s
}

// Go starts a harness task; it parks at its first gate until the scheduler releases it.
func (s *Sched) Go(name string, fn func()) {
	tk := &task{id: len(s.tasks), name: name, harness: true, prio: s.t.C.Draw(8)}
	s.tasks = append(s.tasks, tk)
	go func() {
		g := gid()
		s.mu.Lock()
		s.byGID[g] = tk
		s.mu.Unlock()
		defer func() {
			tk.done = true
			if r := recover(); r != nil {
				if _, ok := r.(abortTrial); !ok {
					s.t.failNoPanic("panic", "panic:"+panicClass(r), fmt.Sprintf("task %s panicked: %v\n%s", name, r, shortStack()))
				}
			}
		}()
		s.Yield("start:" + name)
		fn()
	}()
}

func (s *Sched) spawnToken(label string) uint64 {
	s.mu.Lock()
	defer s.mu.Unlock()
	s.spawnSeq++
	tk := &task{id: 1000 + int(s.spawnSeq), name: fmt.Sprintf("lib%d(%s)", s.spawnSeq, label), prio: 4}
	s.pending[s.spawnSeq] = tk
	s.tasks = append(s.tasks, tk)
	return s.spawnSeq
}

func (s *Sched) start(label string, tok uint64) {
	g := gid()
	s.mu.Lock()
	tk := s.pending[tok]
	if tk != nil {
		s.byGID[g] = tk
		delete(s.pending, tok)
	}
	s.mu.Unlock()
	s.Yield(label)
}

func (s *Sched) park(label string, mu interface{}, kind string) {
	g := gid()
	if g == s.rootGID {
		return // set-up code on the bubble's root goroutine never parks
	}
	if strayCount.Load() != 0 {
		if _, stray := strayGIDs.Load(g); stray {
			return // left over from an earlier trial that ran outside a bubble: not this scheduler's business
		}
	}
	s.mu.Lock()
	if s.aborting {
		s.mu.Unlock()
		runtime.Goexit()
	}
	tk := s.byGID[g]
	if tk == nil {
		// a goroutine the simulator does not know (not started through Go or an instrumented go
		// statement): give it a late identity; ordering among such tasks is by arrival and is
		// reported so that the determinism self-test notices.
		tk = &task{id: 5000 + len(s.tasks), name: "unknown", prio: 4}
		s.byGID[g] = tk
		s.tasks = append(s.tasks, tk)
		s.t.stats["probe:unknown-goroutine"]++
	}
	gt := &gate{task: tk, label: label, ch: make(chan struct{}), mu: mu, kind: kind}
	s.parked = append(s.parked, gt)
	s.mu.Unlock()
	<-gt.ch
	if s.aborting {
		runtime.Goexit()
	}
}

// Yield is a plain gate.
func (s *Sched) Yield(label string) { s.park(label, nil, "") }

// BeforeLock is a gate that is runnable only while the mutex is free.
func (s *Sched) BeforeLock(mu interface{}, kind, label string) { s.park(label, mu, kind) }

func lockFree(mu interface{}, kind string) bool {
	switch m := mu.(type) {
	case *sync.Mutex:
		if m.TryLock() {
			m.Unlock()
			return true
		}
		return false
	case **sync.Mutex:
		return lockFree(*m, kind)
	case *sync.RWMutex:
		if kind == "RLock" {
			if m.TryRLock() {
				m.RUnlock()
				return true
			}
			return false
		}
		if m.TryLock() {
			m.Unlock()
			return true
		}
		return false
	case **sync.RWMutex:
		return lockFree(*m, kind)
	}
	return true
}

func (s *Sched) harnessLeft() []string {
	var l []string
	for _, tk := range s.tasks {
		if tk.harness && !tk.done {
			l = append(l, tk.name)
		}
	}
	return l
}

// Run drives the tasks until everything is finished, a violation was recorded, nothing is
// runnable (deadlock) or the step budget is exhausted (livelock).
func (s *Sched) Run() {
	t := s.t
	for {
		synctest.Wait()
		if t.Failed() {
			break
		}
		s.mu.Lock()
		parked := append([]*gate(nil), s.parked...)
		s.mu.Unlock()
		var run []*gate
		for _, g := range parked {
			if g.mu == nil || lockFree(g.mu, g.kind) {
				run = append(run, g)
			}
		}
		if len(run) == 0 {
			if left := s.harnessLeft(); len(left) > 0 {
				var w []string
				for _, g := range parked {
					w = append(w, g.task.name+" at "+g.label)
				}
				sort.Strings(w)
				t.failNoPanic("deadlock", "deadlock", fmt.Sprintf("no runnable task; unfinished: %v; parked (blocked on a held lock): %v; others are blocked on channels/contexts", left, w))
			}
			break
		}
		if s.steps >= s.maxSteps {
			t.failNoPanic("livelock", "livelock", fmt.Sprintf("step budget %d exhausted; unfinished harness tasks: %v", s.maxSteps, s.harnessLeft()))
			break
		}
		sort.SliceStable(run, func(i, j int) bool {
			a, b := run[i].task, run[j].task
			if (a == s.last) != (b == s.last) {
				return a == s.last
			}
			return a.id < b.id
		})
		k := 0
		if len(run) > 1 {
			switch s.policy {
			case polUniform:
				k = t.C.Draw(len(run))
			case polSticky:
				if t.C.Chance(1, 4) {
					k = t.C.Draw(len(run))
				}
			case polPCT:
				// highest priority first; a few drawn change points demote the running task
				best := 0
				for i, g := range run {
					if g.task.prio > run[best].task.prio {
						best = i
					}
				}
				k = best
				if s.pctLeft > 0 && t.C.Chance(1, 12) {
					s.pctLeft--
					run[k].task.prio = -s.steps
					k = t.C.Draw(len(run))
				}
			}
		}
		g := run[k]
		if s.last != nil && g.task != s.last {
			s.switches++
		}
		s.last = g.task
		s.mu.Lock()
		for i, p := range s.parked {
			if p == g {
				s.parked = append(s.parked[:i], s.parked[i+1:]...)
				break
			}
		}
		s.mu.Unlock()
		s.steps++
		t.steps++
		s.hash = (s.hash ^ uint64(g.task.id+1)) * 1099511628211
		s.hash = (s.hash ^ hashStr(g.label)) * 1099511628211
		t.Logf("step %d: %s <- %s", s.steps, g.task.name, g.label)
		close(g.ch)
	}
	t.Sched(s.hash)
	t.StatAdd("context_switches", int64(s.switches))
	s.mu.Lock()
	if len(s.parked) > 0 && t.Failed() {
		s.dirty = true
	}
	s.mu.Unlock()
}

// bubbleResult is set when a trial ended with goroutines that cannot be torn down safely; the
// worker then answers and exits instead of trying to leave the bubble.
var dirtyExit func(t *T)

// inBubble runs body on the root goroutine of a fresh synctest bubble with a scheduler installed.
// body starts tasks with s.Go and then calls s.Run (possibly several times).
func inBubble(t *T, maxSteps int, body func(s *Sched)) {
	tt := currentTestingT
	if tt == nil {
		t.Infra("no testing.T for synctest")
	}
	defer func() {
		cur.sched = nil
		if r := recover(); r != nil {
			if _, ok := r.(abortTrial); ok {
				panic(r)
			}
			msg := fmt.Sprint(r)
			if strings.Contains(msg, "deadlock") && strings.Contains(msg, "bubble") {
				return // blocked library goroutines remained at the end of the bubble; verdict already taken
			}
			panic(r)
		}
	}()
	synctest.Test(tt, func(_ *testing.T) {
		s := newSched(t, maxSteps)
		cur.sched = s
		func() {
			defer func() {
				if r := recover(); r != nil {
					if _, ok := r.(abortTrial); !ok {
						t.failNoPanic("panic", "panic:"+panicClass(r), fmt.Sprintf("panic on the root goroutine: %v\n%s", r, shortStack()))
					}
				}
			}()
			body(s)
		}()
		// make sure everything still parked is released in abort mode
		s.mu.Lock()
		left := s.parked
		s.parked = nil
		s.aborting = true
		s.mu.Unlock()
		if len(left) > 0 || len(s.harnessLeft()) > 0 || s.dirty {
			if dirtyExit != nil {
				dirtyExit(t) // does not return
			}
		}
		for _, g := range left {
			close(g.ch)
		}
	})
}

// Library goroutines that were started while no scheduler was installed (an engine using a file system on the
// plain runtime, outside a bubble) may outlive their trial: a tar reader that failed returns while its background
// writers are still on their way. Such a goroutine must never be taken for a task of a later trial's scheduler,
// draw from a later trial's choice stream or get one of its spawn tokens: it is remembered by goroutine id and
// every hook lets it pass.
var (
	strayGIDs  sync.Map // goroutine id -> struct{}
	strayCount atomic.Int64
)

func isStray() bool {
	if strayCount.Load() == 0 {
		return false
	}
	_, ok := strayGIDs.Load(gid())
	return ok
}

func markStray() {
	if _, loaded := strayGIDs.LoadOrStore(gid(), struct{}{}); !loaded {
		strayCount.Add(1)
	}
}

func init() {
	verifhook.SpawnHook = func(label string) uint64 {
		if s := cur.sched; s != nil && !isStray() {
			return s.spawnToken(label)
		}
		return 0
	}
	verifhook.StartHook = func(label string, tok uint64) {
		if s := cur.sched; s != nil && tok != 0 {
			s.start(label, tok)
			return
		}
		markStray()
	}
}
