package sim

import (
	"archive/tar"
	"bytes"
	"context"
	"errors"
	"fmt"
	"io"
	"sort"
	"strings"

	"github.com/hack-pad/hackpadfs"
	"github.com/hack-pad/hackpadfs/cache"
	"github.com/hack-pad/hackpadfs/mem"
	"github.com/hack-pad/hackpadfs/mount"
	htar "github.com/hack-pad/hackpadfs/tar"
)

// fixtureTree is the small tree every read-only stack is built from: d/ (0755), d/f, d/g, e/ (empty)
var fixtureFiles = map[string]string{"d/f": "0123456789", "d/g": "abc", "top": "T"}
var fixtureDirs = []string{"d", "e"}

func populate(t *T, fs hackpadfs.FS) {
	for _, d := range fixtureDirs {
		must(t, hackpadfs.MkdirAll(fs, d, 0755))
	}
	var names []string
	for n := range fixtureFiles {
		names = append(names, n)
	}
	sort.Strings(names)
	for _, n := range names {
		must(t, hackpadfs.WriteFullFile(fs, n, []byte(fixtureFiles[n]), 0644))
	}
}

// tarBytes builds an archive of the fixture tree (parents first).
func fixtureTar(t *T) []byte {
	var buf bytes.Buffer
	w := tar.NewWriter(&buf)
	for _, d := range fixtureDirs {
		must(t, w.WriteHeader(&tar.Header{Name: d + "/", Typeflag: tar.TypeDir, Mode: 0755}))
	}
	var names []string
	for n := range fixtureFiles {
		names = append(names, n)
	}
	sort.Strings(names)
	for _, n := range names {
		must(t, w.WriteHeader(&tar.Header{Name: n, Typeflag: tar.TypeReg, Mode: 0644, Size: int64(len(fixtureFiles[n]))}))
		_, err := w.Write([]byte(fixtureFiles[n]))
		must(t, err)
	}
	must(t, w.Close())
	return buf.Bytes()
}

// stack kinds shared by the composition engines
const (
	stMem = iota
	stKVShared
	stKVCopy
	stMount
	stSub
	stCache
	stTar
	stCount
)

func stackName(k int) string {
	return []string{"mem", "keyvalue+SimStore(sharing)", "keyvalue+SimStore(copying)", "mount(mem at d)", "Sub(mem)", "cache(mem source)", "tar"}[k]
}

func stackWritable(k int) bool { return k <= stSub }

// buildStack returns a file system of the given kind holding the fixture tree.
func buildStack(t *T, k int) hackpadfs.FS {
	switch k {
	case stMem, stKVShared, stKVCopy:
		fs, _ := newSUT(t, k)
		populate(t, fs)
		return fs
	case stMount:
		root, _ := mem.NewFS()
		must(t, root.Mkdir("d", 0755))
		must(t, root.Mkdir("e", 0755))
		must(t, hackpadfs.WriteFullFile(root, "top", []byte(fixtureFiles["top"]), 0644))
		m, _ := mem.NewFS()
		must(t, hackpadfs.WriteFullFile(m, "f", []byte(fixtureFiles["d/f"]), 0644))
		must(t, hackpadfs.WriteFullFile(m, "g", []byte(fixtureFiles["d/g"]), 0644))
		mfs, _ := mount.NewFS(root)
		must(t, mfs.AddMount("d", m))
		return mfs
	case stSub:
		base, _ := mem.NewFS()
		must(t, base.Mkdir("base", 0755))
		sub, err := hackpadfs.Sub(base, "base")
		must(t, err)
		populate(t, sub)
		return sub
	case stCache:
		src, _ := mem.NewFS()
		populate(t, src)
		store, _ := mem.NewFS()
		c, err := cache.NewReadOnlyFS(src, store, cache.ReadOnlyOptions{})
		must(t, err)
		return c
	case stTar:
		r, err := htar.NewReaderFS(context.Background(), bytes.NewReader(fixtureTar(t)), htar.ReaderFSOptions{})
		must(t, err)
		<-r.Done()
		if err := r.UnarchiveErr(); err != nil {
			t.Infra("fixture tar: %v", err)
		}
		return r
	}
	panic("bad stack")
}

var closedOps = []string{"Read", "ReadAt", "Write", "WriteAt", "Seek", "Stat", "ReadDir", "Truncate", "Chmod", "Sync", "Close"}

// runC17 draws one of three modes: post-Close calls, sibling independence, unlink/rename vs handle I/O.
func runC17(t *T) {
	c := t.C
	defer beginTrial(t, true)()
	switch c.Weighted(4, 3, 3) {
	case 0:
		c17Closed(t)
	case 1:
		c17Siblings(t)
	default:
		c17Unlink(t)
	}
}

// c17Closed: after Close every method, in a drawn order, must fail with an error and never panic;
// the error matches ErrClosed wherever os.File's does.
func c17Closed(t *T) {
	c := t.C
	k := c.Draw(stCount)
	fs := buildStack(t, k)
	ref, _, cleanup := osTwin(t)
	defer cleanup()
	populate(t, ref)
	path := []string{"d/f", "d", "top", "e", "."}[c.Draw(5)]
	isDir := path == "d" || path == "e" || path == "."
	flag := hackpadfs.FlagReadOnly
	if stackWritable(k) && !isDir {
		flag = []int{hackpadfs.FlagReadOnly, hackpadfs.FlagWriteOnly, hackpadfs.FlagReadWrite, hackpadfs.FlagReadWrite | hackpadfs.FlagAppend}[c.Draw(4)]
	}
	t.Logf("mode=closed stack=%s path=%s flag=%s", stackName(k), path, flagString(flag))
	sf, serr := hackpadfs.OpenFile(fs, path, flag, 0)
	rf, rerr := hackpadfs.OpenFile(ref, path, flag, 0)
	if serr != nil || rerr != nil {
		if rf != nil && rerr == nil {
			rf.Close()
		}
		if sf != nil && serr == nil {
			sf.Close()
		}
		if (serr == nil) != (rerr == nil) {
			t.Logf("open differs: sut=%v os=%v (judged by C01/C05)", serr, rerr)
		}
		return
	}
	// optionally use the handle a little before closing
	if c.Chance(1, 2) {
		callHandle(sf, hOp{Kind: "Read", N: 2})
		callHandle(rf, hOp{Kind: "Read", N: 2})
	}
	if err := sf.Close(); err != nil {
		rf.Close()
		t.Fail("close", "C17:close-fails:"+c17Kind(k, isDir, flag), fmt.Sprintf("first Close on %s handle of %q failed: %v", stackName(k), path, err))
	}
	rf.Close()
	// in half of the trials another handle is opened after the Close: whatever the closed handle is asked to do
	// afterwards must not reach it ("handles are independent"; a recycled handle object would be shared)
	var sfB, rfB hackpadfs.File
	pathB := ""
	if c.Chance(1, 2) {
		pathB = []string{"d/f", "top", "d/g"}[c.Draw(3)]
		var eS, eR error
		sfB, eS = hackpadfs.OpenFile(fs, pathB, hackpadfs.FlagReadOnly, 0)
		rfB, eR = hackpadfs.OpenFile(ref, pathB, hackpadfs.FlagReadOnly, 0)
		if eS != nil || eR != nil {
			if eS == nil {
				sfB.Close()
			}
			if eR == nil {
				rfB.Close()
			}
			sfB, rfB = nil, nil
		} else {
			defer rfB.Close()
			defer func() {
				defer func() { recover() }()
				sfB.Close()
			}()
			if c.Chance(1, 2) {
				callHandle(sfB, hOp{Kind: "Read", N: 1})
				callHandle(rfB, hOp{Kind: "Read", N: 1})
			}
			t.Stat("c17:handle-opened-after-close")
		}
	}
	defer func() {
		if sfB == nil || t.Failed() {
			return
		}
		// the later handle: same position and same next bytes as on os
		gs, ws := callHandle(sfB, hOp{Kind: "Seek", Off: 0, Whence: io.SeekCurrent}), callHandle(rfB, hOp{Kind: "Seek", Off: 0, Whence: io.SeekCurrent})
		gr, wr := callHandle(sfB, hOp{Kind: "Read", N: 4}), callHandle(rfB, hOp{Kind: "Read", N: 4})
		if (gs.err == nil) != (ws.err == nil) || gs.off != ws.off || (readClass(gr.n, gr.err) == "fail") != (readClass(wr.n, wr.err) == "fail") || string(gr.data) != string(wr.data) {
			t.Fail("sibling-disturbed", "C17:closed:"+c17Kind(k, isDir, flag)+":later-handle-disturbed", fmt.Sprintf("a handle of %q opened after the Close of the %s handle of %q: offset %d (err %v), next bytes %q (err %v); on os offset %d (err %v), next bytes %q (err %v)", pathB, stackName(k), path, gs.off, gs.err, gr.data, gr.err, ws.off, ws.err, wr.data, wr.err))
		}
	}()
	n := 1 + c.Draw(8)
	for i := 0; i < n; i++ {
		o := hOp{Kind: closedOps[c.Draw(len(closedOps))], N: 3, Data: []byte("zz"), Off: int64(c.Draw(3)), Perm: 0600}
		// unusual but legal arguments: empty and nil buffers, a zero count
		switch c.Weighted(6, 1, 1) {
		case 1:
			o.N, o.Data = 0, []byte{}
		case 2:
			o.N, o.Data = 0, nil
		}
		want := callHandle(rf, o)
		var got hResult
		panicked := ""
		func() {
			defer func() {
				if r := recover(); r != nil {
					panicked = fmt.Sprint(r)
				}
			}()
			got = callHandle(sf, o)
		}()
		t.Logf("%d closed.%s(n=%d) -> sut=%s os=%s", i, o.Kind, len(o.Data), errClass(got.err), errClass(want.err))
		sig := "C17:closed:" + c17Kind(k, isDir, flag) + ":" + o.Kind
		if len(o.Data) == 0 {
			sig += "(empty)"
		}
		if panicked != "" {
			t.Fail("panic", sig+":panic", fmt.Sprintf("%s on a closed %s handle of %q panicked: %s", o.Kind, stackName(k), path, panicked))
		}
		if got.err == nil {
			t.Fail("closed-call-succeeds", sig+":no-error", fmt.Sprintf("%s on a closed %s handle of %q (opened %s) returned no error (os: %v)", o.Kind, stackName(k), path, flagString(flag), want.err))
		}
		if errors.Is(want.err, hackpadfs.ErrClosed) && !errors.Is(got.err, hackpadfs.ErrClosed) {
			t.Fail("closed-call-wrong-error", sig+":not-ErrClosed", fmt.Sprintf("%s on a closed %s handle of %q returned %v; os.File's error matches ErrClosed", o.Kind, stackName(k), path, got.err))
		}
		if got.err != nil && (got.n != 0 || got.off != 0 || len(got.data) != 0) && want.n == 0 && want.off == 0 {
			// failing cleanly: no bytes claimed to be transferred, no offset reported, as os.File answers (0 or nil with the error)
			t.Fail("closed-call-claims-progress", sig+":nonzero-result", fmt.Sprintf("%s on a closed %s handle of %q returned n=%d offset=%d together with %v; a closed os.File returns 0", o.Kind, stackName(k), path, got.n, got.off, got.err))
		}
	}
	t.NonTrivial()
}

func c17Kind(k int, isDir bool, flag int) string {
	s := stackName(k)
	if isDir {
		return s + ":dir"
	}
	return s + ":" + accName(flag)
}

// c17Siblings: several handles on one file; closing, seeking, reading or writing through one never
// changes another's position or validity (offsets compared with the os twin after every call).
func c17Siblings(t *T) {
	c := t.C
	kind := c.Draw(2) // mem, sharing store
	sut, _ := newSUT(t, kind)
	ref, _, cleanup := osTwin(t)
	defer cleanup()
	w := &handleWorld{t: t, kind: kind, sut: sut, ref: ref, path: "f", prop: "C17"}
	defer w.closeAll()
	init := uniqueData(0, 40)
	for _, fs := range []hackpadfs.FS{sut, ref} {
		must(t, hackpadfs.WriteFullFile(fs, "f", init, 0644))
	}
	nh := 2 + c.Draw(2)
	t.Logf("mode=siblings sut=%s handles=%d", sutName(kind), nh)
	for i := 0; i < nh; i++ {
		w.open("f", []int{hackpadfs.FlagReadWrite, hackpadfs.FlagReadOnly, hackpadfs.FlagWriteOnly}[c.Draw(3)], 0644)
	}
	kinds := []string{"Close", "Seek", "Read", "Write", "ReadAt", "WriteAt", "Stat"}
	weights := []int{4, 4, 4, 4, 1, 1, 1}
	n := 2 + c.Draw(14)
	for i := 0; i < n; i++ {
		o := genHandleOp(t, len(w.hs), 40, w.step+1, kinds, weights)
		if w.hs[o.H].closed {
			continue
		}
		w.do(o) // compares every open handle's offset and validity against the os twin
	}
	t.NonTrivial()
}

func nameSet(fs hackpadfs.FS) string {
	s := takeSnapshot(fs, snapOpts{NoPerm: true, NoContent: true})
	var l []string
	for _, line := range s.Lines {
		f := strings.Fields(line)
		if len(f) >= 2 {
			l = append(l, f[0]+" "+f[1])
		}
	}
	return strings.Join(l, "\n")
}

// c17Unlink: remove/rename a path (or an ancestor) and then do I/O through handles opened before.
func c17Unlink(t *T) {
	c := t.C
	kind := c.Draw(3)
	sut, store := newSUT(t, kind)
	// fault mode (simulated stores): once the name is gone, a store call made by a handle operation may fail
	// once. The operation may then fail; the name must stay gone.
	faultsLeft := 0
	if store != nil && c.Chance(1, 3) {
		faultsLeft = 1 + c.Draw(2)
	}
	ref, _, cleanup := osTwin(t)
	defer cleanup()
	for _, fs := range []hackpadfs.FS{sut, ref} {
		must(t, hackpadfs.Mkdir(fs, "d", 0755))
		must(t, hackpadfs.WriteFullFile(fs, "d/f", []byte("0123456789"), 0644))
		// siblings, so that moving or removing the directory takes several store calls
		must(t, hackpadfs.WriteFullFile(fs, "d/a", []byte("a"), 0644))
		must(t, hackpadfs.WriteFullFile(fs, "d/z", []byte("z"), 0644))
	}
	w := &handleWorld{t: t, kind: kind, sut: sut, ref: ref, path: "d/f", prop: "C17"}
	defer w.closeAll()
	nh := 1
	if kind != sutKVCopy {
		nh += c.Draw(2)
	}
	for i := 0; i < nh; i++ {
		w.open("d/f", []int{hackpadfs.FlagReadWrite, hackpadfs.FlagWriteOnly, hackpadfs.FlagReadWrite | hackpadfs.FlagAppend}[c.Draw(3)], 0644)
	}
	t.Logf("mode=unlink sut=%s handles=%d", sutName(kind), len(w.hs))
	nsOps := []Op{
		{Kind: "Remove", P: "d/f"},
		{Kind: "Rename", P: "d/f", Q: "d/g"},
		{Kind: "Rename", P: "d", Q: "e"},
		{Kind: "RemoveAll", P: "d"},
		{Kind: "Rename", P: "d/f", Q: "g"},
	}
	n := 2 + c.Draw(8)
	unlinked, faulted := false, false
	// selfMode: a namespace operation was itself cut short by a store fault, so the os twin is no guide any more.
	// What still holds without it: an operation on a handle (Write, WriteAt, Truncate, Chmod, Seek) never changes
	// the set of names, whatever state the interrupted operation left behind
	selfMode := false
	for i := 0; i < n; i++ {
		if selfMode {
			o := genHandleOp(t, len(w.hs), 10, i+1, []string{"Write", "WriteAt", "Truncate", "Chmod", "Seek"}, []int{5, 2, 2, 1, 1})
			h := w.hs[o.H]
			before := nameSet(sut)
			var got hResult
			func() {
				defer func() {
					if r := recover(); r != nil {
						t.Fail("panic", "C17:unlink:panic:"+o.Kind, fmt.Sprintf("%s through a handle after an interrupted namespace operation panicked: %v", o, r))
					}
				}()
				got = callHandle(h.sut, o)
			}()
			after := nameSet(sut)
			t.Logf("%d %s [%s] -> sut=%s (after an interrupted namespace operation)", i, o, flagString(h.flag), errClass(got.err))
			if before != after {
				t.Fail("resurrection", "C17:unlink:handle-op-changes-names-after-interrupted-op", fmt.Sprintf("step %d %s through a handle of d/f on %s changed the set of names (a store fault had cut a namespace operation short before):\nbefore:\n%s\nafter:\n%s", i, o, sutName(kind), before, after))
			}
			t.NonTrivial()
			continue
		}
		if c.Chance(1, 3) || (!unlinked && i == n-2) {
			o := nsOps[c.Draw(len(nsOps))]
			if faultsLeft > 0 && c.Chance(1, 3) {
				// the namespace operation itself is hit by a store fault (not applied to the twin)
				faultsLeft--
				plan := &faultPlan{t: t, at: c.Draw(8), kind: []string{"Set", "Get", ""}[c.Weighted(3, 2, 1)], armed: true}
				store.plan = plan
				got := applyOp(sut, o)
				store.plan = nil
				t.Logf("%d %s with a store fault armed -> sut=%s (fired: %v)", i, o, errClass(got.Err), plan.fired > 0)
				if plan.fired > 0 {
					t.Stat("c17:namespace-op-interrupted-by-store-fault")
					selfMode = true
					continue
				}
				// the fault did not fire: an ordinary step, the twin follows
				want := applyOp(ref, o)
				if (got.Err == nil) != (want.Err == nil) {
					return
				}
				if want.Err == nil {
					unlinked = true
				}
				continue
			}
			want := applyOp(ref, o)
			got := applyOp(sut, o)
			t.Logf("%d %s -> sut=%s os=%s", i, o, errClass(got.Err), errClass(want.Err))
			if (got.Err == nil) != (want.Err == nil) {
				return // outcome differences of namespace ops are C01's business
			}
			if want.Err == nil {
				unlinked = true
			}
		} else {
			o := genHandleOp(t, len(w.hs), 10, i+1, []string{"Write", "WriteAt", "Truncate", "Chmod", "Seek", "Close"}, []int{5, 2, 2, 1, 1, 1})
			h := w.hs[o.H]
			if h.closed {
				continue
			}
			callHandle(h.ref, o)
			if o.Kind == "Close" {
				h.closed = true // (closing is an operation on the handle like the others: it must not bring a name back either)
			}
			var got hResult
			var plan *faultPlan
			if (unlinked || c.Chance(1, 3)) && faultsLeft > 0 && c.Chance(1, 2) {
				faultsLeft--
				plan = &faultPlan{t: t, at: c.Draw(2), kind: []string{"Get", "", "Set"}[c.Weighted(3, 1, 1)], armed: true}
				store.plan = plan
			}
			func() {
				defer func() {
					if r := recover(); r != nil {
						t.Fail("panic", "C17:unlink:panic:"+o.Kind, fmt.Sprintf("%s through a handle of a removed/renamed file panicked: %v", o, r))
					}
				}()
				got = callHandle(h.sut, o)
			}()
			if store != nil {
				store.plan = nil
			}
			if plan != nil && plan.fired > 0 {
				faulted = true
			}
			t.Logf("%d %s [%s] -> sut=%s", i, o, flagString(h.flag), errClass(got.err))
		}
		if !unlinked {
			continue
		}
		sn, rn := nameSet(sut), nameSet(ref)
		if sn != rn && faulted {
			t.Fail("resurrection", "C17:unlink:names-differ-after-store-fault", fmt.Sprintf("after step %d on %s (a store call of a handle operation failed once: %s) the set of names differs from os:\nsut:\n%s\nos:\n%s", i, sutName(kind), faultedAt(store), sn, rn))
		}
		if sn != rn {
			t.Fail("resurrection", "C17:unlink:names-differ", fmt.Sprintf("after step %d on %s the set of names differs from os:\nsut:\n%s\nos:\n%s", i, sutName(kind), sn, rn))
		}
	}
	if unlinked {
		t.NonTrivial()
	}
}

var _ = io.EOF

func faultedAt(s *SimStore) string {
	if s == nil {
		return ""
	}
	return fmt.Sprintf("%d gets, %d sets so far", s.gets, s.sets)
}

// c17ClosedProbe: open path on stack k, close, call op.
func c17ClosedProbe(k int, path string, flag int, op string) func(t *T) {
	return func(t *T) {
		defer beginTrial(t, false)()
		fs := buildStack(t, k)
		f, err := hackpadfs.OpenFile(fs, path, flag, 0)
		must(t, err)
		must(t, f.Close())
		isDir := path == "d" || path == "e" || path == "."
		sig := "C17:closed:" + c17Kind(k, isDir, flag) + ":" + op
		var got hResult
		func() {
			defer func() {
				if r := recover(); r != nil {
					t.Fail("panic", sig+":panic", fmt.Sprint(r))
				}
			}()
			got = callHandle(f, hOp{Kind: op, N: 3, Data: []byte("zz")})
		}()
		if got.err == nil {
			t.Fail("closed-call-succeeds", sig+":no-error", op+" on a closed handle returned no error")
		}
		if !errors.Is(got.err, hackpadfs.ErrClosed) {
			t.Fail("closed-call-wrong-error", sig+":not-ErrClosed", fmt.Sprint(got.err))
		}
	}
}

func c17UnlinkProbe(t *T) {
	defer beginTrial(t, false)()
	for kind := 0; kind < 3; kind++ {
		sut, _ := newSUT(t, kind)
		ref, _, cleanup := osTwin(t)
		func() {
			defer cleanup()
			for _, fs := range []hackpadfs.FS{sut, ref} {
				must(t, hackpadfs.Mkdir(fs, "d", 0755))
				must(t, hackpadfs.WriteFullFile(fs, "d/f", []byte("0123456789"), 0644))
			}
			w := &handleWorld{t: t, kind: kind, sut: sut, ref: ref, path: "d/f", prop: "C17"}
			defer w.closeAll()
			h := w.open("d/f", rdwr, 0)
			applyOp(ref, Op{Kind: "Remove", P: "d/f"})
			applyOp(sut, Op{Kind: "Remove", P: "d/f"})
			callHandle(h.ref, hOp{Kind: "Write", Data: []byte("x")})
			callHandle(h.sut, hOp{Kind: "Write", Data: []byte("x")})
			if sn, rn := nameSet(sut), nameSet(ref); sn != rn {
				t.Fail("resurrection", "C17:unlink:names-differ", "sut:\n"+sn+"\nos:\n"+rn)
			}
		}()
	}
}

func init() {
	RegisterProbe("c17-closed-kv-read", c17ClosedProbe(stMem, "d/f", rdonly, "Read"))
	RegisterProbe("c17-closed-kv-seek", c17ClosedProbe(stKVShared, "d/f", rdwr, "Seek"))
	RegisterProbe("c17-closed-cachedir-stat", c17ClosedProbe(stCache, "d", rdonly, "Stat"))
	RegisterProbe("c17-unlink-write", c17UnlinkProbe)
	Register(&Engine{
		Prop: "C17", Name: "handlediff/closed+unlink", Run: runC17,
		Trials: map[string]int{"quick": 40000, "thorough": 400000},
		Rule:   "three drawn modes. closed: a handle (read-only/write-only/read-write/append/directory) on mem, keyvalue over both SimStore flavours, mount, Sub, cache and tar is closed and 1-8 drawn methods are called on it, each judged against the same call on a closed os.File; siblings: 2-3 handles on one file with Close/Seek/Read/Write interleaved, every handle's offset and validity compared with os after each call; unlink: Remove/Rename/RemoveAll of the path or an ancestor interleaved with writes through handles opened before, the set of names compared with os after every step; non-trivial = the mode reached its judged phase Calls on closed handles must report no bytes and no offset.",
		Components: map[string][]string{
			"real": {"keyvalue handles", "cache dir/file handles", "tar ReaderFS (real goroutines, joined before the judged phase)", "mount.FS", "Sub", "os.File"},
			"stub": {"SimStore (keyvalue kinds)"},
		},
	})
}
