package sim

import (
	"archive/tar"
	"bytes"
	"context"
	"errors"
	"fmt"
	"io"
	"path"
	"sort"
	"strings"

	"github.com/hack-pad/hackpadfs"
	"github.com/hack-pad/hackpadfs/mem"
	htar "github.com/hack-pad/hackpadfs/tar"
)

// tarsim (C12, C13): tar.NewReaderFS fed by a simulated stream, its reader and background writer
// goroutines scheduled by the seeded scheduler, the destination FS behind gates and faults.

var errStream = errors.New("verif: injected stream fault")

// ---- simulated stream ---------------------------------------------------------------------------------------

type simStream struct {
	t        *T
	data     []byte
	pos      int
	chunk    int
	failAt   int // byte offset at which Read starts failing (-1: never)
	cutAt    int // byte offset at which the stream ends early (-1: never)
	closed   bool
	reads    int
	finished bool  // EOF, cut or failure has been delivered
	failErr  error // the error a failing Read returns (default errStream)
}

func (s *simStream) failure() error {
	if s.failErr != nil {
		return s.failErr
	}
	return errStream
}

func (s *simStream) Read(p []byte) (int, error) {
	yield("stream.Read")
	s.reads++
	limit := len(s.data)
	if s.cutAt >= 0 && s.cutAt < limit {
		limit = s.cutAt
	}
	if s.failAt >= 0 && s.pos >= s.failAt {
		s.finished = true
		s.t.Stat("fault:stream.error")
		return 0, s.failure()
	}
	if s.failAt >= 0 && s.failAt < limit {
		limit = s.failAt
	}
	if s.pos >= limit {
		if s.failAt >= 0 && s.pos >= s.failAt {
			s.finished = true
			return 0, s.failure()
		}
		s.finished = true
		if s.cutAt >= 0 {
			s.t.Stat("fault:stream.truncated")
		}
		return 0, io.EOF
	}
	n := len(p)
	if n > s.chunk {
		n = s.chunk
	}
	if n > limit-s.pos {
		n = limit - s.pos
	}
	copy(p, s.data[s.pos:s.pos+n])
	s.pos += n
	return n, nil
}

func (s *simStream) Close() error {
	s.closed = true
	return nil
}

// ---- archives ---------------------------------------------------------------------------------------------------

type tarEntry struct {
	name  string // normalised logical name
	spell string // as written in the header
	dir   bool
	perm  hackpadfs.FileMode
	data  []byte
}

type tarSpec struct {
	entries    []tarEntry                     // in archive order
	files      map[string]tarEntry            // logical regular files
	dirs       map[string]*hackpadfs.FileMode // logical directories: explicit ones carry their mode, implicit ones nil
	escape     string                         // an escaping header name, if any
	escape2    string                         // a second one, written last
	escapeLate bool                           // the first one is written last but one instead of in the middle
	root       *hackpadfs.FileMode            // permission bits of an explicit entry for the root itself, if there is one
}

// normName is the spec's own normalisation: drop empty and '.' elements.
func normName(s string) string {
	var parts []string
	for _, e := range strings.Split(s, "/") {
		if e == "" || e == "." {
			continue
		}
		parts = append(parts, e)
	}
	if len(parts) == 0 {
		return "."
	}
	return strings.Join(parts, "/")
}

func spellName(t *T, name string, dir bool) string {
	c := t.C
	s := name
	switch c.Weighted(5, 1, 1, 1) {
	case 1:
		s = "./" + s
	case 2:
		s = "/" + s
	case 3:
		if strings.Contains(s, "/") {
			s = strings.Replace(s, "/", "//", 1)
		}
	}
	if dir && c.Chance(2, 3) {
		s += "/"
	}
	return s
}

// genTarSpec draws a well-formed logical tree and its archive order/spelling.
func genTarSpec(t *T, small, big int, maxEntries int) *tarSpec {
	c := t.C
	sp := &tarSpec{files: map[string]tarEntry{}, dirs: map[string]*hackpadfs.FileMode{}}
	alpha := []string{"a", "b", "c", "d"}
	if c.Chance(1, 6) {
		// odd but valid element names: ordinary bytes, never separators
		// (ASCII only: a multi-byte name makes archive/tar emit PAX records, and the header-corruption fault
		// computes header offsets for plain USTAR entries)
		alpha = []string{"a", `a\b`, "a:b", "a b", "..a"} // ("..a" is an ordinary name: only the element ".." climbs)
	}
	n := 1 + c.Draw(maxEntries)
	sizes := []int{0, 1, small - 1, small, small + 1, big + 1, 2*big + 7, 100}
	perms := []hackpadfs.FileMode{0644, 0600, 0755, 0444, 0700, 0555}
	isFile := map[string]bool{}
	used := map[string]bool{}
	for i := 0; i < n; i++ {
		depth := 1 + c.Draw(3)
		parts := make([]string, depth)
		for j := range parts {
			parts[j] = alpha[c.Draw(len(alpha))]
		}
		name := strings.Join(parts, "/")
		dir := c.Chance(1, 3)
		// well-formed: distinct names, nothing below a regular file, no file where a directory is needed
		bad := used[name]
		for a := path.Dir(name); a != "."; a = path.Dir(a) {
			if isFile[a] {
				bad = true
			}
		}
		if !dir {
			for u := range used {
				if strings.HasPrefix(u, name+"/") {
					bad = true
				}
			}
			if _, isDir := sp.dirs[name]; isDir {
				bad = true
			}
		}
		if bad {
			continue
		}
		used[name] = true
		e := tarEntry{name: name, dir: dir, perm: perms[c.Draw(len(perms))]}
		if dir {
			p := e.perm
			sp.dirs[name] = &p
		} else {
			isFile[name] = true
			e.data = uniqueData(i+1, sizes[c.Draw(len(sizes))])
			sp.files[name] = e
		}
		for a := path.Dir(name); a != "."; a = path.Dir(a) {
			used[a] = true
			if _, ok := sp.dirs[a]; !ok {
				sp.dirs[a] = nil
			}
		}
		e.spell = spellName(t, name, dir)
		sp.entries = append(sp.entries, e)
	}
	if c.Chance(1, 8) {
		// the root itself as an entry (what a walk-built archive starts with), in one of its spellings
		m := perms[c.Draw(len(perms))]
		sp.root = &m
		sp.entries = append(sp.entries, tarEntry{name: ".", spell: []string{"./", ".", "/", "a/.."}[c.Draw(4)], dir: true, perm: m})
	}
	// archive order: any (children before parents is fine)
	perm := c.Perm(len(sp.entries))
	ordered := make([]tarEntry, len(sp.entries))
	for i, j := range perm {
		ordered[i] = sp.entries[j]
	}
	sp.entries = ordered
	return sp
}

func (sp *tarSpec) archive(t *T) []byte {
	var buf bytes.Buffer
	w := tar.NewWriter(&buf)
	write := func(e tarEntry) {
		if e.dir {
			must(t, w.WriteHeader(&tar.Header{Name: e.spell, Typeflag: tar.TypeDir, Mode: int64(e.perm)}))
			return
		}
		must(t, w.WriteHeader(&tar.Header{Name: e.spell, Typeflag: tar.TypeReg, Mode: int64(e.perm), Size: int64(len(e.data))}))
		_, err := w.Write(e.data)
		must(t, err)
	}
	writeEscape := func() {
		if strings.HasSuffix(sp.escape, "/") {
			must(t, w.WriteHeader(&tar.Header{Name: sp.escape, Typeflag: tar.TypeDir, Mode: 0755}))
		} else {
			must(t, w.WriteHeader(&tar.Header{Name: sp.escape, Typeflag: tar.TypeReg, Mode: 0644, Size: 3}))
			w.Write([]byte("esc"))
		}
	}
	for i, e := range sp.entries {
		if sp.escape != "" && !sp.escapeLate && i == len(sp.entries)/2 {
			writeEscape()
		}
		write(e)
	}
	if sp.escape != "" && sp.escapeLate {
		writeEscape()
	}
	if sp.escape2 != "" {
		must(t, w.WriteHeader(&tar.Header{Name: sp.escape2, Typeflag: tar.TypeReg, Mode: 0644, Size: 3}))
		w.Write([]byte("esc"))
	}
	must(t, w.Close())
	return buf.Bytes()
}

func (sp *tarSpec) describe() string {
	var l []string
	for _, e := range sp.entries {
		if e.dir {
			l = append(l, fmt.Sprintf("%q(dir %04o)", e.spell, e.perm))
		} else {
			l = append(l, fmt.Sprintf("%q(%d bytes %04o)", e.spell, len(e.data), e.perm))
		}
	}
	return strings.Join(l, " ")
}

// ---- destinations ---------------------------------------------------------------------------------------------------

type tarDest struct {
	name  string
	opts  htar.ReaderFSOptions
	inner hackpadfs.FS // what to inspect afterwards (nil for the default destination)
	core  *capCore
}

type tarBaseFS interface {
	hackpadfs.OpenFileFS
	hackpadfs.ChmodFS
	hackpadfs.MkdirFS
}

func buildTarDest(t *T, kind int) *tarDest {
	switch kind {
	case 0:
		return &tarDest{name: "default (in-memory)"}
	case 1:
		fs, _ := mem.NewFS()
		return &tarDest{name: "explicit mem.FS", opts: htar.ReaderFSOptions{UnarchiveFS: fs}, inner: fs}
	default:
		fs, _ := mem.NewFS()
		core := &capCore{t: t, inner: fs, faultAt: -1, label: "dest.", writing: map[string]int{}}
		return &tarDest{name: "FS exposing only OpenFile+Chmod+Mkdir", opts: htar.ReaderFSOptions{UnarchiveFS: newCapFS(core, []string{"OpenFile", "Mkdir", "Chmod"}).(tarBaseFS)}, inner: fs, core: core}
	}
}

func tarKnobs(t *T) (small, big int) {
	c := t.C
	small = []int{1024, 512, 2048}[c.Draw(3)]
	// the big buffer is larger than the small one by a fair factor, as the real constants are (4 MiB against 150 KiB):
	// a relation between constants that code may rely on is not a knob
	big = small * []int{4, 8, 3}[c.Draw(3)]
	nsmall := 1 + c.Draw(3)
	cur.knobs["smallBufMemory"] = uint64(small)
	cur.knobs["bigBufMemory"] = uint64(big)
	cur.knobs["maxMemory"] = uint64(2*big + nsmall*small)
	return
}

// judgeTarTree compares a file system with the logical tree of the spec.
func judgeTarTree(fs hackpadfs.FS, sp *tarSpec, which string) (string, string) {
	snap := takeSnapshot(fs, snapOpts{NoContent: true, NoPerm: true})
	for _, l := range snap.Lines {
		if strings.Contains(l, "ERR") || strings.Contains(l, "HIDDEN") || strings.Contains(l, "DISAGREES") || strings.Contains(l, "DUPLICATE") {
			return "malformed", fmt.Sprintf("%s: %s", which, l)
		}
	}
	for p, e := range snap.Entries {
		if e.Kind == "f" {
			want, ok := sp.files[p]
			if !ok {
				return "extra-entry", fmt.Sprintf("%s contains the regular file %q, which is not in the archive", which, p)
			}
			b, err := hackpadfs.ReadFile(fs, p)
			if err != nil || !bytes.Equal(b, want.data) {
				return "wrong-bytes", fmt.Sprintf("%s: %q holds %d bytes (err %v), the archive entry has %d", which, p, len(b), err, len(want.data))
			}
			if e.Perm != want.perm {
				return "wrong-file-mode", fmt.Sprintf("%s: %q has permission bits %04o, the archive entry %04o", which, p, e.Perm, want.perm)
			}
		} else {
			mode, ok := sp.dirs[p]
			if !ok {
				return "extra-entry", fmt.Sprintf("%s contains the directory %q, which is neither an entry nor an ancestor of one", which, p)
			}
			if mode != nil && e.Perm != *mode {
				return "wrong-dir-mode", fmt.Sprintf("%s: directory %q has permission bits %04o, its archive entry says %04o", which, p, e.Perm, *mode)
			}
		}
	}
	if sp.root != nil {
		if info, err := hackpadfs.Stat(fs, "."); err != nil || info.Mode().Perm() != *sp.root {
			return "wrong-dir-mode", fmt.Sprintf("%s: the root has permission bits %v (err %v), its archive entry says %04o", which, info, err, *sp.root)
		}
	}
	for p := range sp.files {
		if e, ok := snap.Entries[p]; !ok || e.Kind != "f" {
			return "missing-entry", fmt.Sprintf("%s lacks the regular file %q of the archive", which, p)
		}
	}
	for p := range sp.dirs {
		if e, ok := snap.Entries[p]; !ok || e.Kind != "d" {
			return "missing-entry", fmt.Sprintf("%s lacks the directory %q", which, p)
		}
	}
	return "", ""
}

// ---- C12 ---------------------------------------------------------------------------------------------------------------

func runC12(t *T) {
	c := t.C
	defer beginTrial(t, true)()
	small, big := tarKnobs(t)
	sp := genTarSpec(t, small, big, 8)
	if c.Chance(1, 8) {
		sp.escape = []string{"../x", "a/../../x", "../../etc/x", "a/b/../../../x"}[c.Draw(4)]
		dotdot := c.Chance(1, 3)
		if dotdot {
			// a name that resolves to the parent of the root itself: its own parent is the root, so nothing refuses
			// it before the entry itself is made (in the background, for a small entry)
			sp.escape = []string{"..", "./..", "a/../..", "../"}[c.Draw(4)]
		}
		if c.Chance(1, 2) {
			// one more, at the end of the archive; preferably of the same kind, and the first one right in front of it
			// (two refusals that both arrive after the reader has looked for errors the last time)
			sp.escape2 = []string{"..", "../y/x", "./..", "b/../../x"}[c.Draw(4)]
			sp.escapeLate = c.Chance(1, 2)
			if dotdot && c.Chance(3, 4) {
				sp.escape2 = []string{"..", "./..", "b/../.."}[c.Draw(3)]
				sp.escapeLate = c.Chance(3, 4)
			}
		}
	}
	destKind := c.Draw(3)
	chunk := []int{512, 4096, 100, 1024, 7}[c.Draw(5)]
	data := sp.archive(t)
	t.Logf("small=%d big=%d pool=%d chunk=%d escape=%q,%q archive: %s", small, big, (cur.knobs["maxMemory"]-2*uint64(big))/uint64(small), chunk, sp.escape, sp.escape2, sp.describe())
	var rfs *htar.ReaderFS
	var dest *tarDest
	finished := false
	inBubble(t, 200000, func(s *Sched) {
		dest = buildTarDest(t, destKind)
		stream := &simStream{t: t, data: data, chunk: chunk, failAt: -1, cutAt: -1}
		var err error
		rfs, err = htar.NewReaderFS(context.Background(), stream, dest.opts)
		if err != nil {
			t.Fail("setup", "C12:NewReaderFS-fails", err.Error())
		}
		s.Go("done-waiter", func() {
			<-rfs.Done()
			yield("done-returned")
			finished = true
		})
		s.Run()
		if t.Failed() || !finished {
			return
		}
		// judged inside the bubble: the tar FS's channels belong to it
		c12Judge(t, sp, rfs, dest, destKind)
	})
}

func c12Judge(t *T, sp *tarSpec, rfs *htar.ReaderFS, dest *tarDest, destKind int) {
	t.Logf("dest=%s UnarchiveErr=%v", dest.name, rfs.UnarchiveErr())
	sig := "C12:" + []string{"default", "mem", "minimal"}[destKind]
	if sp.escape != "" {
		if rfs.UnarchiveErr() == nil {
			t.Fail("escape", sig+":escape-accepted", fmt.Sprintf("the archive holds the entry %q, which resolves outside the root, yet UnarchiveErr() is nil", sp.escape))
		}
		// nothing with that name anywhere
		if dest.inner != nil {
			s := takeSnapshot(dest.inner, snapOpts{NoContent: true})
			for p := range s.Entries {
				if path.Base(p) == "x" {
					t.Fail("escape", sig+":escape-created", fmt.Sprintf("the escaping entry %q was created as %q", sp.escape, p))
				}
			}
		}
		t.NonTrivial()
		return
	}
	if err := rfs.UnarchiveErr(); err != nil {
		t.Fail("unarchive", sig+":unarchive-error", fmt.Sprintf("unpacking the well-formed archive [%s] failed: %v", sp.describe(), err))
	}
	if k, d := judgeTarTree(rfs, sp, "the tar FS"); k != "" {
		t.Fail("tree", sig+":"+k, d+"\narchive: "+sp.describe())
	}
	if dest.inner != nil {
		if k, d := judgeTarTree(dest.inner, sp, "the destination FS"); k != "" {
			t.Fail("tree", sig+":dest:"+k, d+"\narchive: "+sp.describe())
		}
	}
	if len(sp.entries) > 0 {
		t.NonTrivial()
	}
}

// ---- C13 ---------------------------------------------------------------------------------------------------------------

func runC13(t *T) {
	c := t.C
	defer beginTrial(t, true)()
	if c.Chance(1, 6) {
		c13Primitives(t)
		return
	}
	small, big := tarKnobs(t)
	sp := genTarSpec(t, small, big, 6)
	// a repeated member (what `tar -r` makes: an updated copy appended under the same name, possibly in another
	// spelling): "the entry" is then either copy, complete. Its openers come after Done() -- what is served while
	// the later copy is being written over the earlier one is not something the statement settles.
	repeated, var2 := "", []byte(nil)
	if c.Chance(1, 8) && len(sp.files) > 0 {
		var fnames []string
		for n := range sp.files {
			fnames = append(fnames, n)
		}
		sort.Strings(fnames)
		repeated = fnames[c.Draw(len(fnames))]
		var2 = uniqueData(40, []int{small + 1, 2*small + 5, big + 1, 100}[c.Weighted(3, 3, 1, 1)])
		dup := tarEntry{name: repeated, spell: spellName(t, repeated, false), perm: 0644, data: var2}
		if c.Chance(1, 2) {
			sp.entries = append(sp.entries, dup) // appended, as tar -r does
		} else {
			// right behind the earlier copy: the one position where that copy's background writer is most likely
			// still on its way
			for i, e := range sp.entries {
				if e.name == repeated && !e.dir {
					sp.entries = append(sp.entries[:i+1], append([]tarEntry{dup}, sp.entries[i+1:]...)...)
					break
				}
			}
		}
		t.Stat("c13:repeated-member")
	}
	data := sp.archive(t)
	destKind := c.Draw(3)
	chunk := []int{512, 4096, 100, 1024}[c.Draw(4)]
	faultKind := []string{"none", "truncate", "stream-error", "corrupt-header", "cancel", "dest-fault"}[c.Weighted(2, 2, 2, 1, 3, 3)]
	if faultKind == "dest-fault" {
		destKind = 2
	}
	stream := &simStream{t: t, data: data, chunk: chunk, failAt: -1, cutAt: -1}
	switch faultKind {
	case "truncate":
		stream.cutAt = 512 * c.Draw(len(data)/512+1)
	case "stream-error":
		stream.failAt = c.Draw(len(data) + 1)
		switch c.Weighted(4, 2, 1) {
		case 1:
			// a cut-off decompressing or limited reader underneath: a bare io.ErrUnexpectedEOF in the middle of the data
			stream.failErr = io.ErrUnexpectedEOF
		case 2:
			// an error that wraps io.EOF without being it (errors.Is says yes, == says no): still a failure of the stream
			stream.failErr = fmt.Errorf("verif: connection lost: %w", io.EOF)
		}
	case "corrupt-header":
		// flip a byte inside the header block of a drawn entry (data bytes carry no checksum: a flipped
		// data byte yields a complete, different file, which is outside the property)
		d := append([]byte(nil), data...)
		off, target := 0, c.Draw(len(sp.entries))
		for i, e := range sp.entries {
			if i == target {
				break
			}
			off += 512 + (len(e.data)+511)/512*512
		}
		if off+512 <= len(d) {
			d[off+c.Draw(500)] ^= 0x55
		}
		stream.data = d
	}
	cancelAfter := -1
	if faultKind == "cancel" {
		cancelAfter = c.Draw(60)
	}
	nopen := 1 + c.Draw(4)
	var names []string
	for n := range sp.files {
		names = append(names, n)
	}
	for n := range sp.dirs {
		names = append(names, n)
	}
	names = append(names, "missing", ".")
	sort.Strings(names)
	t.Logf("fault=%s small=%d big=%d chunk=%d openers=%d archive: %s", faultKind, small, big, chunk, nopen, sp.describe())
	if repeated != "" {
		t.Logf("repeated member: %q once more at the end of the archive, %d bytes", repeated, len(var2))
	}
	type openRes struct {
		name  string
		err   error
		bytes []byte
		rerr  error
		done  bool
	}
	results := make([]*openRes, nopen)
	doneReturned := false
	var rfs *htar.ReaderFS
	judge := func() {
		sig := "C13:" + faultKind
		for i, res := range results {
			if !res.done {
				t.Fail("liveness", sig+":open-never-returned", fmt.Sprintf("opener%d: Open(%q) had not returned when the system went quiescent", i, res.name))
			}
			want, isFile := sp.files[res.name]
			if res.err == nil && isFile {
				if res.name == repeated && res.rerr == nil && bytes.Equal(res.bytes, var2) {
					continue // the later copy, complete
				}
				if res.name == repeated {
					t.Logf("repeated: delivered %q... later copy %q...", string(res.bytes[:min(12, len(res.bytes))]), string(var2[:min(12, len(var2))]))
				}
				if res.rerr != nil || !bytes.Equal(res.bytes, want.data) {
					t.Fail("partial", sig+":open-ok-but-incomplete", fmt.Sprintf("opener%d: Open(%q) succeeded but the handle delivered %d bytes (read error %v); the entry has %d bytes. UnarchiveErr=%v", i, res.name, len(res.bytes), res.rerr, len(want.data), rfs.UnarchiveErr()))
				}
			}
		}
		if !doneReturned {
			t.Fail("liveness", sig+":done-never-closed", "Done() was not closed when the system went quiescent")
		}
		if faultKind == "none" {
			if err := rfs.UnarchiveErr(); err != nil {
				t.Fail("unarchive", sig+":unarchive-error", err.Error())
			}
			for i, res := range results {
				if _, isFile := sp.files[res.name]; isFile && res.err != nil {
					t.Fail("open", sig+":open-of-entry-fails", fmt.Sprintf("opener%d: Open(%q) of an archive entry failed without any fault: %v", i, res.name, res.err))
				}
			}
		}
		t.NonTrivial()
	}
	inBubble(t, 300000, func(s *Sched) {
		dest := buildTarDest(t, destKind)
		ctx, cancel := context.WithCancel(context.Background())
		defer cancel()
		var err error
		rfs, err = htar.NewReaderFS(ctx, stream, dest.opts)
		if err != nil {
			t.Fail("setup", "C13:NewReaderFS-fails", err.Error())
		}
		if faultKind == "dest-fault" {
			// only calls the unpacker makes (the openers only read)
			dest.core.faultKind = []string{"file.Write", "OpenFile", "file.CloseWritten", "Mkdir", "Chmod"}[c.Weighted(4, 2, 2, 2, 1)]
			dest.core.faultAt = c.Draw(4)
			dest.core.short = c.Chance(1, 2)
			dest.core.lossyClose = true
			dest.core.persistent = c.Chance(1, 2) // several background writers fail, not just one
		}
		for i := 0; i < nopen; i++ {
			i := i
			res := &openRes{name: names[c.Draw(len(names))]}
			if repeated != "" && c.Chance(1, 2) {
				res.name = repeated
			}
			results[i] = res
			delay := c.Draw(40)
			s.Go(fmt.Sprintf("opener%d", i), func() {
				for k := 0; k < delay; k++ {
					yield("opener-delay")
				}
				if res.name == repeated {
					<-rfs.Done()
					yield("opener-after-done")
				}
				f, err := rfs.Open(res.name)
				res.err = err
				if err == nil {
					if _, isFile := sp.files[res.name]; isFile {
						res.bytes, res.rerr = readAllFrom(f, 700)
					}
					f.Close()
				}
				res.done = true
				t.Logf("opener%d Open(%q) -> %v (%d bytes read, %v)", i, res.name, err, len(res.bytes), res.rerr)
			})
		}
		s.Go("done-waiter", func() {
			<-rfs.Done()
			yield("done-returned")
			doneReturned = true
		})
		if cancelAfter >= 0 {
			s.Go("canceller", func() {
				for k := 0; k < cancelAfter; k++ {
					yield("cancel-delay")
				}
				t.Stat("fault:context.cancel")
				t.Logf("caller cancels the context")
				cancel()
			})
		}
		s.Run()
		if dest.core != nil && dest.core.fired != "" {
			t.Logf("destination fault fired: %s", dest.core.fired)
			t.Stat("probe:fault-inside-unpack")
		}
		if t.Failed() {
			return // includes the deadlock verdict: an Open or Done() that never returned
		}
		judge()
	})
}

// c13Primitives drives the unexported pubsub and buffer pool directly (export shim of the overlay).
func c13Primitives(t *T) {
	c := t.C
	if c.Chance(1, 2) {
		// pubsub: every Wait(k) returns after Emit(k) or cancellation, in every order
		keys := []string{"k1", "k2", "k3"}
		nw := 1 + c.Draw(4)
		cancelAt := -1
		if c.Chance(1, 3) {
			cancelAt = c.Draw(8)
		}
		returned := make([]bool, nw)
		waitKeys := make([]string, nw)
		emitted := map[string]bool{}
		cancelled := false
		t.Logf("mode=pubsub waiters=%d cancel-at=%d", nw, cancelAt)
		inBubble(t, 5000, func(s *Sched) {
			ctx, cancel := context.WithCancel(context.Background())
			defer cancel()
			ps := htar.NewPubsubForVerif(ctx)
			for i := 0; i < nw; i++ {
				i := i
				waitKeys[i] = keys[c.Draw(len(keys))]
				s.Go(fmt.Sprintf("waiter%d", i), func() {
					ps.Wait(waitKeys[i])
					yield("wait-returned")
					if !emitted[waitKeys[i]] && !cancelled {
						t.Fail("early-wake", "C13:pubsub:wait-returned-early", fmt.Sprintf("Wait(%q) returned before Emit(%q) and before cancellation", waitKeys[i], waitKeys[i]))
					}
					returned[i] = true
				})
			}
			s.Go("emitter", func() {
				order := c.Perm(len(keys))
				for step, ki := range order {
					if step == cancelAt {
						cancelled = true
						cancel()
					}
					yield("before-emit")
					emitted[keys[ki]] = true
					ps.Emit(keys[ki])
					if c.Chance(1, 3) {
						ps.Emit(keys[ki]) // emitting twice is harmless
					}
				}
			})
			s.Run()
		})
		if t.Failed() {
			return
		}
		for i, r := range returned {
			if !r {
				t.Fail("liveness", "C13:pubsub:wait-never-returned", fmt.Sprintf("Wait(%q) of waiter%d never returned although every key was emitted", waitKeys[i], i))
			}
		}
		t.NonTrivial()
		return
	}
	// buffer pool: never more than max buffers, Wait returns once a buffer is Done
	max := 1 + c.Draw(3)
	nusers := 2 + c.Draw(4)
	got := make([]bool, nusers)
	inUse, peak := 0, 0
	t.Logf("mode=bufferpool max=%d users=%d", max, nusers)
	inBubble(t, 5000, func(s *Sched) {
		pool := htar.NewBufferPoolForVerif(64, uint64(max))
		for i := 0; i < nusers; i++ {
			i := i
			rounds := 1 + c.Draw(2)
			s.Go(fmt.Sprintf("user%d", i), func() {
				for r := 0; r < rounds; r++ {
					b := pool.Wait()
					inUse++
					if inUse > peak {
						peak = inUse
					}
					if b.Len() != 64 {
						t.Fail("pool", "C13:bufferpool:wrong-size", fmt.Sprintf("buffer of %d bytes", b.Len()))
					}
					yield("holding-buffer")
					inUse--
					b.Done()
				}
				got[i] = true
			})
		}
		s.Run()
		if int(pool.Allocated()) > max {
			t.failNoPanic("pool", "C13:bufferpool:too-many-buffers", fmt.Sprintf("%d buffers allocated, max %d", pool.Allocated(), max))
		}
	})
	if t.Failed() {
		return
	}
	if peak > max {
		t.Fail("pool", "C13:bufferpool:too-many-in-use", fmt.Sprintf("%d buffers in use at once, max %d", peak, max))
	}
	for i, g := range got {
		if !g {
			t.Fail("liveness", "C13:bufferpool:wait-never-returned", fmt.Sprintf("user%d never got a buffer", i))
		}
	}
	t.NonTrivial()
}

func init() {
	Register(&Engine{
		Prop: "C12", Name: "tarsim", Run: runC12,
		Trials: map[string]int{"quick": 25000, "thorough": 300000},
		Rule:   "a drawn well-formed logical tree (1-8 entries, regular files and directories, depth<=3, sizes 0,1,small-1,small,small+1,big+1,2*big+7 relative to knob buffer sizes small in {512,1024,2048} and big in {1024,2048,4096}, a small-buffer pool of 1-3 buffers), archived in a drawn order (children before parents, explicit/implicit/never mentioned parents) with drawn spellings (./x, /x, a//b, trailing /) and permission bits, 1 in 8 with an escaping name; fed through a simulated stream in drawn chunk sizes into tar.NewReaderFS with destination = default, explicit mem.FS, or an FS exposing only OpenFile+Chmod+Mkdir; the reader goroutine and every background writer are tasks of the seeded scheduler (gates at goroutine starts, channel wake-ups, stream reads, destination calls and every lock inside the in-memory destination); after Done() the tar FS and the destination are compared with the logical tree (bytes, permission bits of entries, nothing else) and UnarchiveErr(); non-trivial = at least one entry; distinct = event-log hash (archive + schedule) One escaping archive in three uses a name resolving to '..' itself, half have a second escaping entry at the end.",
		Components: map[string][]string{
			"real": {"tar.ReaderFS incl. its goroutines, error channel, WaitGroup, buffer pools, pubsub", "archive/tar", "mem.FS destination"},
			"stub": {"simulated stream", "capability/fault wrapper around the explicit minimal destination", "buffer sizes as knobs (shipped constants are 150 KiB / 4 MiB / 20 MiB)"},
		},
	})
	Register(&Engine{
		Prop: "C13", Name: "tarsim", Run: runC13,
		Trials: map[string]int{"quick": 30000, "thorough": 400000},
		Rule:   "archives as in C12 (1-6 entries) streamed in drawn chunks while 1-4 opener tasks call Open(name) (entries early/late/being written, directories, missing names, '.') after drawn delays and a waiter blocks on Done(); one drawn fault: truncation at a 512-byte block, a reader error at a byte offset, a flipped byte, cancellation of the caller's context after a drawn number of steps, or a failing destination call (create, k-th write after a prefix, lossy close, mkdir, chmod); judged: a successful Open of a regular entry delivers exactly the entry's bytes; at quiescence every Open and Done() has returned (a blocked one is a deadlock verdict); without a fault every entry opens and UnarchiveErr() is nil; 1 in 6 trials drive the unexported pubsub and buffer pool directly: Wait returns only after Emit or cancellation and always eventually, never more than max buffers; distinct = event-log hash One archive in eight repeats a member (appended or right behind the earlier copy; its openers come after Done and may see either copy, complete).",
		Components: map[string][]string{
			"real": {"tar.ReaderFS, pubsub, bufferPool", "archive/tar", "mem.FS destination"},
			"stub": {"simulated stream with faults", "fault wrapper around the minimal destination", "context cancelled by a harness task", "buffer sizes as knobs"},
		},
	})
}
