package sim

import (
	"fmt"
	"path"
	"sort"
	"strings"

	"github.com/hack-pad/hackpadfs"
	"github.com/hack-pad/hackpadfs/mem"
	"github.com/hack-pad/hackpadfs/mount"
	hos "github.com/hack-pad/hackpadfs/os"
)

// openOnlyFS exposes nothing but Open (the minimal io/fs.FS).
type openOnlyFS struct{ inner hackpadfs.FS }

func (o openOnlyFS) Open(name string) (hackpadfs.File, error) { return o.inner.Open(name) }

type c07Kind struct {
	name  string
	alpha []string
	dirs  []string
	build func(t *T) (fs hackpadfs.FS, setup hackpadfs.FS, cleanup func())
}

// c07Cores: the fault wrappers of the two instances of the kind built last (view side, direct side).
var c07Cores []*capCore

func c07Kinds() []c07Kind {
	return []c07Kind{
		{name: "mem", alpha: []string{"a", "b", "c"}, dirs: []string{"a", ".", "a/b", "b"},
			build: func(t *T) (hackpadfs.FS, hackpadfs.FS, func()) {
				fs, _ := mem.NewFS()
				return fs, fs, func() {}
			}},
		{name: "mount(m, m/n)", alpha: []string{"m", "n", "a"}, dirs: []string{"m", ".", "m/a", "m/n", "a"},
			build: func(t *T) (hackpadfs.FS, hackpadfs.FS, func()) {
				mfs, _ := mountConfig(t)
				return mfs, mfs, func() {}
			}},
		{name: "os.FS", alpha: []string{"a", "b", "c"}, dirs: []string{"a", ".", "a/b"},
			build: func(t *T) (hackpadfs.FS, hackpadfs.FS, func()) {
				dir, cleanup := newScratch(t)
				fs, err := hos.NewFS().Sub(strings.TrimPrefix(dir, "/"))
				must(t, err)
				return fs, fs, cleanup
			}},
		{name: "open-only FS over mem", alpha: []string{"a", "b", "c"}, dirs: []string{"a", ".", "a/b"},
			build: func(t *T) (hackpadfs.FS, hackpadfs.FS, func()) {
				fs, _ := mem.NewFS()
				return openOnlyFS{fs}, fs, func() {}
			}},
		{name: "fault wrapper over mem (Open only)", alpha: []string{"a", "b", "c"}, dirs: []string{"a", ".", "a/b"},
			build: func(t *T) (hackpadfs.FS, hackpadfs.FS, func()) {
				fs, _ := mem.NewFS()
				core := &capCore{t: t, inner: fs, faultAt: -1, label: "under.", partialDir: true, readShape: 2}
				c07Cores = append(c07Cores, core)
				return newCapFS(core, nil), fs, func() {}
			}},
		{name: "Sub(mem, a) (nested)", alpha: []string{"a", "b", "c"}, dirs: []string{"b", ".", "b/c"},
			build: func(t *T) (hackpadfs.FS, hackpadfs.FS, func()) {
				base, _ := mem.NewFS()
				must(t, base.Mkdir("a", 0755))
				sub, err := hackpadfs.Sub(base, "a")
				must(t, err)
				return sub, sub, func() {}
			}},
	}
}

func joinView(dir, name string) string {
	if !hackpadfs.ValidPath(name) {
		return name
	}
	return path.Join(dir, name)
}

// viewPath converts a path of B's namespace (below dir) into the view's namespace.
func viewPath(dir, p string) string {
	if dir == "." {
		return p
	}
	if p == dir {
		return "."
	}
	return strings.TrimPrefix(p, dir+"/")
}

func runC07(t *T) {
	c := t.C
	defer beginTrial(t, true)()
	kinds := c07Kinds()
	k := kinds[c.Draw(len(kinds))]
	c07Cores = nil
	A, setupA, cleanA := k.build(t)
	defer cleanA()
	B, setupB, cleanB := k.build(t)
	defer cleanB()
	g := newFsGen(t, k.alpha, 3)
	snapB := takeSnapshot(setupB, snapOpts{Special: true})
	g.observe(snapB)
	n := 2 + c.Draw(18)
	t.Logf("kind=%s steps=%d", k.name, n)
	views := 0
	keptViews := map[string]hackpadfs.FS{}
	for i := 0; i < n; i++ {
		if c.Chance(1, 2) {
			// plain history step, applied to both instances directly
			if ma, ok := A.(*mount.FS); ok && c.Chance(1, 8) {
				// the composition itself changes: one more mount on both instances. Views taken earlier see it like
				// their parent does
				mb := B.(*mount.FS)
				p := []string{"a", "m/a"}[c.Draw(2)]
				applyOp(setupA, Op{Kind: "Mkdir", P: p, Perm: 0755})
				applyOp(setupB, Op{Kind: "Mkdir", P: p, Perm: 0755})
				na, _ := mem.NewFS()
				nb, _ := mem.NewFS()
				ea, eb := ma.AddMount(p, na), mb.AddMount(p, nb)
				t.Logf("%d both AddMount(%q) -> %s", i, p, errClass(eb))
				if errClass(ea) != errClass(eb) {
					t.Infra("twin instances disagree on AddMount(%q): %v vs %v", p, ea, eb)
				}
				continue
			}
			o := g.next()
			if (o.Kind == "Remove" || o.Kind == "RemoveAll" || o.Kind == "Rename") && (o.P == "." || o.Q == ".") {
				continue
			}
			ra, rb := applyOp(setupA, o), applyOp(setupB, o)
			t.Logf("%d both %s -> %s", i, o, errClass(rb.Err))
			if errClass(ra.Err) != errClass(rb.Err) {
				t.Infra("twin instances disagree on %s: %v vs %v", o, ra.Err, rb.Err)
			}
		} else {
			dir := k.dirs[c.Draw(len(k.dirs))]
			if c.Chance(1, 4) && !strings.HasPrefix(k.name, "mount") {
				// any directory over the alphabet, not only the fixed ones: e.g. b/a with the name a/a (the view's
				// directory ends the way the name starts)
				dir = k.alpha[c.Draw(len(k.alpha))]
				if c.Chance(2, 3) {
					dir += "/" + k.alpha[c.Draw(len(k.alpha))]
				}
				// preferably one that exists
				var existing []string
				for p, e := range snapB.Entries {
					if e.Kind == "d" && p != "." && strings.Count(p, "/") <= 1 {
						existing = append(existing, p)
					}
				}
				sort.Strings(existing)
				if len(existing) > 0 && c.Chance(3, 4) {
					dir = existing[c.Draw(len(existing))]
				}
			}
			o := g.next()
			if c.Chance(1, 6) && dir != "." {
				// self-similar names: the name starts the way the directory ends (dir b/a, name a/a/...)
				last := dir[strings.LastIndex(dir, "/")+1:]
				o.P = last + "/" + last
				if c.Chance(1, 2) {
					o.P += "/" + k.alpha[c.Draw(len(k.alpha))]
				}
				if c.Chance(1, 2) {
					// with a regular file in the way, so that errors name a path other than the one passed in
					blocker := Op{Kind: "WriteFullFile", P: path.Join(dir, last), Perm: 0644, Data: []byte("blocker")}
					applyOp(A, blocker)
					applyOp(B, blocker)
					if c.Chance(1, 2) {
						o = Op{Kind: "MkdirAll", P: o.P, Perm: 0755}
					}
				}
			}
			// o.P / o.Q are drawn in the whole namespace; use them relative to dir
			if c.Chance(2, 3) {
				o.P = viewPath(dir, o.P)
				if o.Kind == "Rename" {
					o.Q = viewPath(dir, o.Q)
				}
			}
			if c.Chance(1, 8) {
				// names that would reach outside the view if they were joined before being validated
				esc := []string{"../" + k.alpha[0], "../../" + k.alpha[1], k.alpha[0] + "/../../" + k.alpha[1], "..", "/" + k.alpha[0]}[c.Draw(5)]
				if o.Kind == "Rename" && c.Chance(1, 2) {
					o.Q = esc
				} else {
					o.P = esc
				}
			}
			if (o.Kind == "Remove" || o.Kind == "RemoveAll" || o.Kind == "Rename") && (o.P == "." || o.Q == ".") && t.Avoid("remove-root-of-sub-view") {
				continue
			}
			if (o.Kind == "Remove" || o.Kind == "RemoveAll" || o.Kind == "Rename") && (o.P == "." || o.Q == ".") && dir == "." {
				continue
			}
			if cl := pathClass(dir, snapB); cl == "file" || cl == "below-file" {
				continue // dir must be a directory (or missing); a regular file or a path through one is outside the property
			}
			o.Raw = joinView(dir, o.P) != "."
			// a view may be one taken earlier in the history and kept (a view is not a snapshot of its parent)
			view, kept := keptViews[dir]
			var err error
			if !kept || c.Chance(1, 2) {
				view, err = hackpadfs.Sub(A, dir)
				if err != nil {
					t.Fail("sub", "C07:"+k.name+":Sub-fails", fmt.Sprintf("Sub(%s, %q) failed: %v", k.name, dir, err))
				}
				if c.Chance(1, 2) {
					keptViews[dir] = view
				}
			} else {
				t.Stat("c07:kept-view-reused")
			}
			if c.Chance(1, 10) {
				// a view of the view at a directory that would lead out of it must be refused
				esc := []string{"..", "../" + k.alpha[0], k.alpha[0] + "/../..", "/" + k.alpha[0], k.alpha[0] + "/"}[c.Draw(5)]
				if inner, ierr := hackpadfs.Sub(view, esc); ierr == nil {
					_, serr := hackpadfs.Stat(inner, ".")
					t.Fail("escape", "C07:"+k.name+":nested-Sub-escapes", fmt.Sprintf("Sub(Sub(%s, %q), %q) succeeded (Stat of its root: %v): a view of a view outside the view", k.name, dir, esc, serr))
				}
				t.Stat("c07:nested-escaping-Sub-refused")
			}
			ob := o
			ob.P = joinView(dir, o.P)
			if o.Kind == "Rename" {
				ob.Q = joinView(dir, o.Q)
			}
			sig := "C07:" + k.name + ":" + opSig(Op{Kind: o.Kind, P: ob.P, Q: ob.Q, Flag: o.Flag & 3}, snapB)
			// on the fault wrapper: the same read fault on both instances (a read that delivers part of the bytes or
			// of the entries and then fails): the view hands on what its parent hands out, partial results included
			faultKind := ""
			if len(c07Cores) == 2 && (o.Kind == "ReadFile" || o.Kind == "ReadDir") && c.Chance(1, 2) {
				faultKind = map[string]string{"ReadFile": "file.Read", "ReadDir": "file.ReadDir"}[o.Kind]
				at := 0
				if o.Kind == "ReadFile" {
					at = 1 + c.Draw(3)
				}
				for _, core := range c07Cores {
					core.faultKind, core.kindSeen, core.faultAt, core.fired = faultKind, 0, at, ""
				}
			}
			got := applyOp(view, o)
			want := applyOp(B, ob)
			for _, core := range c07Cores {
				core.disarm()
			}
			if o.Kind == "ReadDir" {
				// which half of an unordered listing arrives before the failure is the inner file system's order: count only
				got.Partial, want.Partial = fmt.Sprint(strings.Count(got.Partial, ":")), fmt.Sprint(strings.Count(want.Partial, ":"))
			}
			if faultKind != "" && got.Err != nil && want.Err != nil && got.Partial != want.Partial {
				t.Fail("partial", sig+":partial-result-differs", fmt.Sprintf("%s on Sub(%s, %q) while a read of the underlying FS fails part-way: the view delivered %q with its error (%v), the parent %q (%v)", o, k.name, dir, got.Partial, got.Err, want.Partial, want.Err))
			}
			t.Logf("%d view(%q) %s -> view=%s direct(%s)=%s", i, dir, o, errClass(got.Err), ob.P, errClass(want.Err))
			invalidName := !hackpadfs.ValidPath(o.P) || (o.Kind == "Rename" && !hackpadfs.ValidPath(o.Q))
			if invalidName {
				// "dir joined with name" is not defined for a name that is not a valid path; what the statement
				// asks of it is that nothing outside dir is reached: the view has to refuse (which of the checks of
				// view and parent answers first is not specified), and the instances still agree below
				if got.Err == nil {
					t.Fail("outcome", sig+":invalid-name-accepted-by-view", fmt.Sprintf("%s on Sub(%s, %q) succeeded although the name is not a valid path", o, k.name, dir))
				}
			} else if errClass(got.Err) != errClass(want.Err) {
				t.Fail("outcome", sig+":view="+errClass(got.Err)+":direct="+errClass(want.Err),
					fmt.Sprintf("%s on Sub(%s, %q): %v; the same operation on the parent at %q: %v", o, k.name, dir, got.Err, ob.P, want.Err))
			}
			if got.Err == nil && got.Data != want.Data {
				t.Fail("data", sig+":data", fmt.Sprintf("%s on Sub(%s, %q) returned %q, the parent returned %q", o, k.name, dir, got.Data, want.Data))
			}
			if got.Err != nil && hackpadfs.ValidPath(o.P) {
				gs, ws := shapeOf(got.Err), shapeOf(want.Err)
				if gs.Type == ws.Type {
					switch gs.Type {
					case "PathError":
						if gs.Path != viewPath(dir, ws.Path) {
							t.Fail("errpath", sig+":errpath", fmt.Sprintf("%s on Sub(%s, %q): error names %q; the parent's error names %q (expected %q in the view)", o, k.name, dir, gs.Path, ws.Path, viewPath(dir, ws.Path)))
						}
					case "LinkError":
						if hackpadfs.ValidPath(o.Q) && (gs.Old != viewPath(dir, ws.Old) || gs.New != viewPath(dir, ws.New)) {
							t.Fail("errpath", sig+":errpath", fmt.Sprintf("%s on Sub(%s, %q): error names (%q,%q); the parent's (%q,%q)", o, k.name, dir, gs.Old, gs.New, ws.Old, ws.New))
						}
					}
				} else {
					t.Fail("errtype", sig+":errtype", fmt.Sprintf("%s on Sub(%s, %q): error type %s, parent's %s", o, k.name, dir, gs.Type, ws.Type))
				}
			}
			views++
		}
		sa := takeSnapshot(setupA, snapOpts{Special: true})
		snapB = takeSnapshot(setupB, snapOpts{Special: true})
		if sa.Text != snapB.Text {
			t.Fail("state", "C07:"+k.name+":state-differs", fmt.Sprintf("after step %d the instance operated through the view differs from the one operated directly:\n%s", i, diffText(sa, snapB, "view  ", "direct")))
		}
		g.observe(snapB)
		t.State(snapB.Text)
	}
	if views > 0 {
		t.NonTrivial()
	}
}

// c07Probe: setup ops on both instances, then one view step.
func c07Probe(kindIdx int, dir string, view Op, setup ...Op) func(t *T) {
	return func(t *T) {
		defer beginTrial(t, false)()
		k := c07Kinds()[kindIdx]
		A, setupA, cleanA := k.build(t)
		defer cleanA()
		B, setupB, cleanB := k.build(t)
		defer cleanB()
		for _, o := range setup {
			applyOp(setupA, o)
			applyOp(setupB, o)
		}
		snapB := takeSnapshot(setupB, snapOpts{Special: true})
		v, err := hackpadfs.Sub(A, dir)
		must(t, err)
		ob := view
		ob.P = joinView(dir, view.P)
		if view.Kind == "Rename" {
			ob.Q = joinView(dir, view.Q)
		}
		sig := "C07:" + k.name + ":" + opSig(Op{Kind: view.Kind, P: ob.P, Q: ob.Q}, snapB)
		got, want := applyOp(v, view), applyOp(B, ob)
		if errClass(got.Err) != errClass(want.Err) {
			t.Fail("outcome", sig+":view="+errClass(got.Err)+":direct="+errClass(want.Err), fmt.Sprintf("view: %v, direct: %v", got.Err, want.Err))
		}
		if got.Err != nil {
			if gs, ws := shapeOf(got.Err), shapeOf(want.Err); gs.Type == "PathError" && gs.Path != viewPath(dir, ws.Path) {
				t.Fail("errpath", sig+":errpath", fmt.Sprintf("view names %q, parent names %q", gs.Path, ws.Path))
			}
		}
		if sa, sb := takeSnapshot(setupA, snapOpts{Special: true}), takeSnapshot(setupB, snapOpts{Special: true}); sa.Text != sb.Text {
			t.Fail("state", "C07:"+k.name+":state-differs", diffText(sa, sb, "view  ", "direct"))
		}
	}
}

func init() {
	RegisterProbe("c07-sub-rename", c07Probe(0, "a", opRename("x", "y"), opMkdir("a"), opWrite("a/x")))
	RegisterProbe("c07-sub-above-mount", c07Probe(1, ".", opWrite("m/x")))
	RegisterProbe("c07-sub-dir-errpath", c07Probe(3, "a", Op{Kind: "MkdirAll", P: "c", Perm: 0755}))
	Register(&Engine{
		Prop: "C07", Name: "fsdiff/sub-twin", Run: runC07,
		Trials: map[string]int{"quick": 30000, "thorough": 300000},
		Rule:   "two identical instances A and B of a drawn FS kind (mem; mount.FS with mounts m and m/n; os.FS on scratch directories; an FS exposing only Open; a Sub view of mem for nesting) are driven by the same history (2-19 steps); view steps apply op(Sub(A,dir),name) and op(B,dir/name) for dir drawn from existing/missing directories incl. '.', mount points, above and below mount points; outcome class, data, error type and error path (view-relative) and the full snapshots of A and B are compared after every step; non-trivial = at least one view step; distinct = event-log hash",
		Components: map[string][]string{
			"real": {"hackpadfs.Sub dispatch", "sub.go", "mount.go error path translation", "os.FS native Sub", "mount.FS", "mem.FS"},
			"stub": {"openOnlyFS wrapper (harness) for the minimal-FS kind"},
		},
	})
}
