package sim

import (
	"fmt"
	"strings"

	"github.com/hack-pad/hackpadfs"
	"github.com/hack-pad/hackpadfs/keyvalue"
	"github.com/hack-pad/hackpadfs/mem"
)

// sutKinds for the namespace engines.
const (
	sutMem = iota
	sutKVShared
	sutKVCopy
)

func sutName(k int) string { return []string{"mem", "keyvalue+SimStore(sharing)", "keyvalue+SimStore(copying)"}[k] }

// newSUT builds the file system under test; store is non-nil for the keyvalue kinds.
func newSUT(t *T, kind int) (hackpadfs.FS, *SimStore) {
	switch kind {
	case sutMem:
		fs, err := mem.NewFS()
		if err != nil {
			t.Fail("setup", "setup:mem.NewFS", err.Error())
		}
		return fs, nil
	default:
		st := newSimStore(t, kind == sutKVCopy)
		st.permute = true
		fs, err := keyvalue.NewFS(st)
		if err != nil {
			t.Fail("setup", "setup:keyvalue.NewFS", err.Error())
		}
		return fs, st
	}
}

// opSig is the coarse, reference-side identity of a step: op kind, flag bits and the classes of
// its arguments in the reference pre-state.
func opSig(o Op, ref *snapshot) string {
	s := o.Kind
	if o.Kind == "OpenFile" {
		s += "[" + flagString(o.Flag) + "]"
	}
	s += "(" + pathClass(o.P, ref)
	if o.Kind == "Rename" {
		s += "," + pathClass(o.Q, ref)
		switch {
		case o.P == o.Q:
			s += ",same"
		case strings.HasPrefix(o.Q, o.P+"/"):
			s += ",dst-inside-src"
		case strings.HasPrefix(o.P, o.Q+"/"):
			s += ",src-inside-dst"
		}
	}
	return s + ")"
}

// pathClass classifies a path against the reference snapshot.
func pathClass(p string, ref *snapshot) string {
	if p == "." {
		return "root"
	}
	if e, ok := ref.Entries[p]; ok {
		if e.Kind == "f" {
			return "file"
		}
		prefix := p + "/"
		for q := range ref.Entries {
			if strings.HasPrefix(q, prefix) {
				return "nonempty-dir"
			}
		}
		return "empty-dir"
	}
	// missing: look at the nearest existing ancestor
	parent := p
	for {
		i := strings.LastIndexByte(parent, '/')
		if i < 0 {
			return "missing"
		}
		parent = parent[:i]
		if e, ok := ref.Entries[parent]; ok {
			if e.Kind == "f" {
				return "below-file"
			}
			if strings.Count(p, "/") > strings.Count(parent, "/")+1 {
				return "missing-parent"
			}
			return "missing"
		}
	}
}

// runC01 is the sequential, fault-free configuration: the same history on the SUT and on os.FS.
func runC01(t *T) {
	c := t.C
	kind := c.Draw(3)
	defer beginTrial(t, true)()
	sut, _ := newSUT(t, kind)
	ref, _, cleanup := osTwin(t)
	defer cleanup()
	alpha := []string{"a", "b", "c"}
	g := newFsGen(t, alpha, 3)
	probe := candidatePaths(alpha, 3)
	pins := pinTracker{}
	refSnap := takeSnapshot(ref, snapOpts{})
	n := 1 + c.Draw(24)
	t.Logf("sut=%s steps=%d", sutName(kind), n)
	mutations := 0
	for i := 0; i < n; i++ {
		o := g.next()
		if o.Kind == "Remove" || o.Kind == "RemoveAll" || o.Kind == "Rename" {
			if o.P == "." || (o.Kind == "Rename" && o.Q == ".") {
				continue // removing or renaming the root is outside C01
			}
		}
		sig := opSig(o, refSnap)
		want := applyOp(ref, o)
		got := applyOp(sut, o)
		t.Logf("%d %s -> sut=%s os=%s", i, o, errClass(got.Err), errClass(want.Err))
		if (got.Err == nil) != (want.Err == nil) {
			t.Fail("outcome", "C01:outcome:"+sig+":os="+okFail(want.Err)+":sut="+okFail(got.Err),
				fmt.Sprintf("step %d %s on %s: os: %v; sut: %v", i, o, sutName(kind), want.Err, got.Err))
		}
		if got.Err == nil && got.Data != want.Data {
			t.Fail("data", "C01:data:"+sig, fmt.Sprintf("step %d %s on %s returned %q, os returned %q", i, o, sutName(kind), got.Data, want.Data))
		}
		pins.update(o, want.Err == nil)
		if o.Mutating() {
			pinned := map[string]int64(pins)
			refSnap = takeSnapshot(ref, snapOpts{Pinned: pinned})
			sutSnap := takeSnapshot(sut, snapOpts{Probe: probe, Pinned: pinned})
			if refSnap.Text != sutSnap.Text {
				t.Fail("tree", "C01:tree:"+sig+":os="+okFail(want.Err),
					fmt.Sprintf("after step %d %s on %s the trees differ:\n%s", i, o, sutName(kind), diffText(sutSnap, refSnap, "sut", "os ")))
			}
			g.observe(refSnap)
			t.State(refSnap.Text)
			if want.Err == nil {
				mutations++
			}
		}
	}
	if mutations > 0 {
		t.NonTrivial()
	}
}

func init() {
	Register(&Engine{
		Prop: "C01", Name: "fsdiff", Run: runC01,
		Trials: map[string]int{"quick": 3000, "thorough": 200000},
		Rule: "seeded histories (1-24 steps) of the twelve namespace operations over the alphabet {a,b,c} (depth<=3, all OpenFile flag sets, perms incl. type/setuid bits), applied step by step to the SUT (mem.FS, keyvalue.FS over sharing/copying SimStore) and to os.FS in a fresh scratch directory; a trial is non-trivial when at least one mutation succeeded on the reference; distinct = distinct event-log hash (ops, outcomes)",
		Components: map[string][]string{
			"real": {"mem.FS", "keyvalue.FS", "keyvalue/blob", "hackpadfs package helpers", "os.FS", "Go os package + Linux kernel (tmpfs)"},
			"stub": {"SimStore (map-backed keyvalue.Store, for the keyvalue kinds)"},
		},
	})
}
