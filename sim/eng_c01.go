package sim

import (
	"fmt"
	"path"
	"strings"

	"github.com/hack-pad/hackpadfs"
	"github.com/hack-pad/hackpadfs/keyvalue"
	"github.com/hack-pad/hackpadfs/mem"
)

// sutKinds for the namespace engines.
const (
	sutMem = iota
	sutKVShared
	sutKVCopy
)

func sutName(k int) string {
	return []string{"mem", "keyvalue+SimStore(sharing)", "keyvalue+SimStore(copying)"}[k]
}

// newSUT builds the file system under test; store is non-nil for the keyvalue kinds.
func newSUT(t *T, kind int) (hackpadfs.FS, *SimStore) {
	switch kind {
	case sutMem:
		fs, err := mem.NewFS()
		if err != nil {
			t.Fail("setup", "setup:mem.NewFS", err.Error())
		}
		return fs, nil
	default:
		st := newSimStore(t, kind == sutKVCopy)
		st.permute = true
		fs, err := keyvalue.NewFS(st)
		if err != nil {
			t.Fail("setup", "setup:keyvalue.NewFS", err.Error())
		}
		return fs, st
	}
}

// opSig is the coarse, reference-side identity of a step: op kind, flag bits and the classes of
// its arguments in the reference pre-state.
func opSig(o Op, ref *snapshot) string {
	s := o.Kind
	if o.Kind == "OpenFile" {
		s += "[" + flagString(o.Flag) + "]"
	}
	s += "(" + pathClass(o.P, ref)
	if o.Kind == "Rename" {
		s += "," + pathClass(o.Q, ref)
		switch {
		case o.P == o.Q:
			s += ",same"
		case strings.HasPrefix(o.Q, o.P+"/"):
			s += ",dst-inside-src"
		case strings.HasPrefix(o.P, o.Q+"/"):
			s += ",src-inside-dst"
		}
	}
	return s + ")"
}

// pathClass classifies a path against the reference snapshot.
func pathClass(p string, ref *snapshot) string {
	if !hackpadfs.ValidPath(p) {
		return "invalid"
	}
	if p == "." {
		return "root"
	}
	if e, ok := ref.Entries[p]; ok {
		if e.Kind == "f" {
			return "file"
		}
		prefix := p + "/"
		for q := range ref.Entries {
			if strings.HasPrefix(q, prefix) {
				return "nonempty-dir"
			}
		}
		return "empty-dir"
	}
	// missing: look at the ancestors
	parent := path.Dir(p)
	if parent == "." {
		return "missing"
	}
	if e, ok := ref.Entries[parent]; ok {
		if e.Kind == "f" {
			return "below-file"
		}
		return "missing"
	}
	for a := path.Dir(parent); a != "."; a = path.Dir(a) {
		if e, ok := ref.Entries[a]; ok && e.Kind == "f" {
			return "below-file"
		}
	}
	if e, ok := ref.Entries[path.Dir(parent)]; ok && e.Kind == "f" {
		return "below-file"
	}
	return "missing-parent"
}

// diffRun applies one history to a SUT and to the os twin and judges every step (C01 oracle).
type diffRun struct {
	t       *T
	kind    int
	sut     hackpadfs.FS
	ref     hackpadfs.FS
	probe   []string
	pins    pinTracker
	refSnap *snapshot
	g       *fsGen
	muts    int
	i       int
	quiet   bool // do not walk the SUT between steps
	last    bool
}

func newDiffRun(t *T, kind int, alpha []string) (*diffRun, func()) {
	sut, _ := newSUT(t, kind)
	ref, _, cleanup := osTwin(t)
	d := &diffRun{t: t, kind: kind, sut: sut, ref: ref, probe: candidatePaths(alpha, 3), pins: pinTracker{}}
	d.refSnap = takeSnapshot(ref, snapOpts{})
	return d, cleanup
}

func isDirIn(s *snapshot, p string) bool {
	if p == "." {
		return true
	}
	e, ok := s.Entries[p]
	return ok && e.Kind == "d"
}

// skip reports whether the op is outside the property or inside the region of an active known finding.
func (d *diffRun) skip(o Op) bool {
	if o.Kind == "Remove" || o.Kind == "RemoveAll" || o.Kind == "Rename" {
		if o.P == "." || (o.Kind == "Rename" && o.Q == ".") {
			return true // removing or renaming the root is outside C01
		}
	}
	if o.Kind == "ReadFile" && isDirIn(d.refSnap, o.P) && d.t.Avoid("readfile-of-directory") {
		return true
	}
	return false
}

func (d *diffRun) step(o Op) {
	t := d.t
	i := d.i
	d.i++
	sig := opSig(o, d.refSnap)
	want := applyOp(d.ref, o)
	got := applyOp(d.sut, o)
	t.Logf("%d %s -> sut=%s os=%s", i, o, errClass(got.Err), errClass(want.Err))
	if (got.Err == nil) != (want.Err == nil) {
		t.Fail("outcome", "C01:outcome:"+sig+":os="+okFail(want.Err)+":sut="+okFail(got.Err),
			fmt.Sprintf("step %d %s on %s: os: %v; sut: %v", i, o, sutName(d.kind), want.Err, got.Err))
	}
	if got.Err == nil && got.Data != want.Data {
		t.Fail("data", "C01:data:"+sig, fmt.Sprintf("step %d %s on %s returned %q, os returned %q", i, o, sutName(d.kind), got.Data, want.Data))
	}
	d.pins.update(o, want.Err == nil)
	if o.Mutating() {
		pinned := map[string]int64(d.pins)
		d.refSnap = takeSnapshot(d.ref, snapOpts{Pinned: pinned})
		if d.quiet && !d.last {
			// quiet trials: the SUT is not walked between steps (a walk is dozens of Stat/Open/ReadDir calls that
			// a bug may depend on the absence of); its tree is compared after the last step only
			if d.g != nil {
				d.g.observe(d.refSnap)
			}
			if want.Err == nil {
				d.muts++
			}
			return
		}
		sutSnap := takeSnapshot(d.sut, snapOpts{Probe: d.probe, Pinned: pinned})
		if d.refSnap.Text != sutSnap.Text {
			t.Fail("tree", "C01:tree:"+sig+":os="+okFail(want.Err),
				fmt.Sprintf("after step %d %s on %s the trees differ:\n%s", i, o, sutName(d.kind), diffText(sutSnap, d.refSnap, "sut", "os ")))
		}
		if d.g != nil {
			d.g.observe(d.refSnap)
		}
		t.State(d.refSnap.Text)
		if want.Err == nil {
			d.muts++
		}
	}
}

// runC01 is the sequential, fault-free configuration: the same history on the SUT and on os.FS.
func runC01(t *T) {
	c := t.C
	kind := c.Draw(3)
	defer beginTrial(t, true)()
	alpha := []string{"a", "b", "c"}
	if c.Chance(1, 3) {
		alpha = [][]string{{"a", "ab", "b"}, {"a", "a.x", "b"}}[c.Draw(2)] // names that are string prefixes of each other (one more byte, several more bytes)
	}
	d, cleanup := newDiffRun(t, kind, alpha)
	defer cleanup()
	d.g = newFsGen(t, alpha, 3)
	n := 1 + c.Draw(24)
	d.quiet = c.Chance(1, 3)
	t.Logf("sut=%s steps=%d quiet=%v", sutName(kind), n, d.quiet)
	for i := 0; i < n; i++ {
		o := d.g.next()
		if d.skip(o) {
			continue
		}
		d.step(o)
	}
	if d.quiet {
		// one more, harmless mutation so that the final trees are compared
		d.last = true
		d.step(Op{Kind: "Mkdir", P: "zz-final", Perm: 0755})
	}
	if d.muts > 0 {
		t.NonTrivial()
	}
}

// c01Probe runs a fixed history on every SUT kind (probes for known / fixed findings).
func c01Probe(ops ...Op) func(t *T) {
	return func(t *T) {
		defer beginTrial(t, false)()
		for kind := 0; kind < 3; kind++ {
			d, cleanup := newDiffRun(t, kind, []string{"a", "b", "c"})
			func() {
				defer cleanup()
				for _, o := range ops {
					d.step(o)
				}
			}()
		}
	}
}

const (
	rdonly = hackpadfs.FlagReadOnly
	wronly = hackpadfs.FlagWriteOnly
	rdwr   = hackpadfs.FlagReadWrite
	creat  = hackpadfs.FlagCreate
	excl   = hackpadfs.FlagExclusive
	trunc  = hackpadfs.FlagTruncate
	appnd  = hackpadfs.FlagAppend
)

func opWrite(p string) Op     { return Op{Kind: "WriteFullFile", P: p, Perm: 0644, Data: []byte("x")} }
func opMkdir(p string) Op     { return Op{Kind: "Mkdir", P: p, Perm: 0755} }
func opRename(p, q string) Op { return Op{Kind: "Rename", P: p, Q: q} }

func init() {
	RegisterProbe("c01-readfile-dir", c01Probe(opMkdir("a"), Op{Kind: "ReadFile", P: "a"}))
	RegisterProbe("c01-mkdir-below-file", c01Probe(opWrite("a"), opMkdir("a/b")))
	RegisterProbe("c01-create-below-file", c01Probe(opWrite("a"), Op{Kind: "OpenFile", P: "a/b", Flag: wronly | creat, Perm: 0644}))
	RegisterProbe("c01-excl-existing", c01Probe(opWrite("a"), Op{Kind: "OpenFile", P: "a", Flag: wronly | creat | excl, Perm: 0644}))
	RegisterProbe("c01-rdwr-dir", c01Probe(opMkdir("a"), Op{Kind: "OpenFile", P: "a", Flag: rdwr}))
	RegisterProbe("c01-removeall-below-file", c01Probe(opWrite("a"), Op{Kind: "RemoveAll", P: "a/b"}))
	RegisterProbe("c01-rename-missing-parent", c01Probe(opWrite("a"), opRename("a", "b/c")))
	RegisterProbe("c01-rename-into-self", c01Probe(opMkdir("a"), opRename("a", "a/b")))
	RegisterProbe("c01-rename-file-onto-dir", c01Probe(opWrite("a"), opMkdir("b"), opRename("a", "b")))
	RegisterProbe("c01-rename-below-file", c01Probe(opWrite("a"), opWrite("b"), opRename("a", "b/c")))
}

func init() {
	Register(&Engine{
		Prop: "C01", Name: "fsdiff", Run: runC01,
		Trials: map[string]int{"quick": 30000, "thorough": 400000},
		Rule:   "seeded histories (1-24 steps) of the twelve namespace operations over the alphabet {a,b,c} (depth<=3, all OpenFile flag sets, perms incl. type/setuid bits), applied step by step to the SUT (mem.FS, keyvalue.FS over sharing/copying SimStore) and to os.FS in a fresh scratch directory; a trial is non-trivial when at least one mutation succeeded on the reference; distinct = distinct event-log hash (ops, outcomes)",
		Components: map[string][]string{
			"real": {"mem.FS", "keyvalue.FS", "keyvalue/blob", "hackpadfs package helpers", "os.FS", "Go os package + Linux kernel (tmpfs)"},
			"stub": {"SimStore (map-backed keyvalue.Store, for the keyvalue kinds)"},
		},
	})
}
