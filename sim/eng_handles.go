package sim

import (
	"bytes"
	"fmt"
	"io"

	"github.com/hack-pad/hackpadfs"
	"github.com/hack-pad/hackpadfs/keyvalue/blob"
)

// handlediff: the same handle operations on the SUT and on os.File through os.FS (C02, C17).

type hpair struct {
	id     int
	flag   int
	sut    hackpadfs.File
	ref    hackpadfs.File
	closed bool
	isDir  bool
	path   string
}

type hOp struct {
	Kind   string // Read ReadAt Write WriteAt Seek Truncate Stat Close Sync Chmod ReadDir
	H      int
	N      int
	Off    int64
	Whence int
	Data   []byte
	Perm   hackpadfs.FileMode
	// Blob: Read/ReadAt/Write/WriteAt go through the blob package's helpers (blob.Read, ...), the second entry point
	// into the same file: a handle that implements ReadBlob/ReadBlobAt/WriteBlob/WriteBlobAt is asked that way, any
	// other through the helpers' fallbacks. Only the system under test is called like this, the reference plainly.
	// 2: the handle is shown to the helper as a bare io.Reader/ReaderAt/Writer/WriterAt, so that the fallback runs
	Blob int
}

type onlyReader struct{ io.Reader }
type onlyReaderAt struct{ io.ReaderAt }
type onlyWriter struct{ io.Writer }
type onlyWriterAt struct{ io.WriterAt }

func (o hOp) String() string {
	switch o.Kind {
	case "Read":
		return fmt.Sprintf("h%d.Read(len %d)", o.H, o.N)
	case "ReadAt":
		return fmt.Sprintf("h%d.ReadAt(len %d, off %d)", o.H, o.N, o.Off)
	case "Write":
		return fmt.Sprintf("h%d.Write(%d bytes)", o.H, len(o.Data))
	case "WriteAt":
		return fmt.Sprintf("h%d.WriteAt(%d bytes, off %d)", o.H, len(o.Data), o.Off)
	case "Seek":
		return fmt.Sprintf("h%d.Seek(%d, whence %d)", o.H, o.Off, o.Whence)
	case "Truncate":
		return fmt.Sprintf("h%d.Truncate(%d)", o.H, o.Off)
	case "ReadDir":
		return fmt.Sprintf("h%d.ReadDir(%d)", o.H, o.N)
	case "Chmod":
		return fmt.Sprintf("h%d.Chmod(%04o)", o.H, o.Perm)
	}
	return fmt.Sprintf("h%d.%s()", o.H, o.Kind)
}

type hResult struct {
	n    int
	off  int64
	data []byte
	err  error
	info string
}

func accName(flag int) string {
	return []string{"RDONLY", "WRONLY", "RDWR", "ACC3"}[flag&3]
}

// callHandle performs the op through the package-level file helpers.
func callHandle(f hackpadfs.File, o hOp) (r hResult) {
	switch o.Kind {
	case "Read":
		if o.Blob != 0 {
			var b blob.Blob
			var src io.Reader = f
			if o.Blob == 2 {
				src = onlyReader{f}
			}
			b, r.n, r.err = blob.Read(src, o.N)
			if b != nil && r.n >= 0 && r.n <= b.Len() {
				r.data = append([]byte(nil), b.Bytes()[:r.n]...)
			}
			break
		}
		buf := make([]byte, o.N)
		r.n, r.err = f.Read(buf)
		if r.n >= 0 && r.n <= len(buf) {
			r.data = buf[:r.n]
		}
	case "ReadAt":
		if ra, ok := f.(io.ReaderAt); ok && o.Blob != 0 {
			var b blob.Blob
			if o.Blob == 2 {
				ra = onlyReaderAt{ra}
			}
			b, r.n, r.err = blob.ReadAt(ra, o.N, o.Off)
			if b != nil && r.n >= 0 && r.n <= b.Len() {
				r.data = append([]byte(nil), b.Bytes()[:r.n]...)
			}
			break
		}
		buf := make([]byte, o.N)
		r.n, r.err = hackpadfs.ReadAtFile(f, buf, o.Off)
		if r.n >= 0 && r.n <= len(buf) {
			r.data = buf[:r.n]
		}
	case "Write":
		buf := append([]byte(nil), o.Data...)
		if o.Data == nil {
			buf = nil
		}
		if wr, ok := f.(io.Writer); ok && o.Blob != 0 {
			if o.Blob == 2 {
				wr = onlyWriter{wr}
			}
			r.n, r.err = blob.Write(wr, blob.NewBytes(buf))
		} else {
			r.n, r.err = hackpadfs.WriteFile(f, buf)
		}
		scribble(buf)
	case "WriteAt":
		buf := append([]byte(nil), o.Data...)
		if wa, ok := f.(io.WriterAt); ok && o.Blob != 0 {
			if o.Blob == 2 {
				wa = onlyWriterAt{wa}
			}
			r.n, r.err = blob.WriteAt(wa, blob.NewBytes(buf), o.Off)
		} else {
			r.n, r.err = hackpadfs.WriteAtFile(f, buf, o.Off)
		}
		scribble(buf)
	case "Seek":
		r.off, r.err = hackpadfs.SeekFile(f, o.Off, o.Whence)
	case "Truncate":
		r.err = hackpadfs.TruncateFile(f, o.Off)
	case "Stat":
		info, err := f.Stat()
		r.err = err
		if err == nil {
			if info.IsDir() {
				r.info = "dir"
			} else {
				r.info = fmt.Sprintf("file size=%d perm=%04o", info.Size(), info.Mode().Perm())
			}
		}
	case "Close":
		r.err = f.Close()
	case "Sync":
		r.err = hackpadfs.SyncFile(f)
	case "Chmod":
		r.err = hackpadfs.ChmodFile(f, o.Perm)
	case "ReadDir":
		ents, err := hackpadfs.ReadDirFile(f, o.N)
		r.err = err
		r.n = len(ents)
	}
	return
}

// readClass normalises the (n, err) of a read the way io.Reader / io.ReaderAt allow.
func readClass(n int, err error) string {
	switch {
	case err == nil:
		return "ok"
	case err == io.EOF:
		return "eof"
	}
	return "fail"
}

// handleWorld is a file prepared identically on the SUT and the os twin, with open handle pairs.
type handleWorld struct {
	t       *T
	kind    int
	sut     hackpadfs.FS
	ref     hackpadfs.FS
	hs      []*hpair
	path    string
	step    int
	prop    string
	multiOK bool
	// quiet: do not probe the SUT handles' offsets with Seek(0, SeekCurrent) after every step (the probe is
	// itself a call on the handle and can reset per-handle state: an observer effect); offsets then show
	// through the data of later reads and are compared once, at the end
	quiet bool
}

func (w *handleWorld) fileBytes() ([]byte, error, []byte, error) {
	sb, serr := hackpadfs.ReadFile(w.sut, w.path)
	rb, rerr := hackpadfs.ReadFile(w.ref, w.path)
	return sb, serr, rb, rerr
}

// open opens one more handle pair with the given flags.
func (w *handleWorld) open(p string, flag int, perm hackpadfs.FileMode) *hpair {
	t := w.t
	sf, serr := hackpadfs.OpenFile(w.sut, p, flag, perm)
	rf, rerr := hackpadfs.OpenFile(w.ref, p, flag, perm)
	t.Logf("open h%d %q %s -> sut=%s os=%s", len(w.hs), p, flagString(flag), errClass(serr), errClass(rerr))
	if (serr == nil) != (rerr == nil) {
		if serr == nil {
			sf.Close()
		} else {
			rf.Close()
		}
		t.Fail("open", w.prop+":open:"+flagString(flag)+":os="+okFail(rerr)+":sut="+okFail(serr), fmt.Sprintf("OpenFile(%q, %s): os: %v, sut: %v", p, flagString(flag), rerr, serr))
	}
	if serr != nil {
		return nil
	}
	h := &hpair{id: len(w.hs), flag: flag, sut: sf, ref: rf, path: p}
	if info, err := rf.Stat(); err == nil && info.IsDir() {
		h.isDir = true
	}
	w.hs = append(w.hs, h)
	return h
}

func (w *handleWorld) closeAll() {
	for _, h := range w.hs {
		func() {
			defer func() { recover() }()
			h.ref.Close()
			if !h.closed {
				h.sut.Close()
			}
		}()
	}
}

// do performs one handle op on both sides and applies the C02 oracle.
func (w *handleWorld) do(o hOp) {
	t := w.t
	h := w.hs[o.H]
	w.step++
	// size before the call, from the reference
	var refSize int64 = -1
	if info, err := hackpadfs.Stat(w.ref, h.path); err == nil && !info.IsDir() {
		refSize = info.Size()
	}
	plain := o
	plain.Blob = 0
	want := callHandle(h.ref, plain)
	got := callHandle(h.sut, o)
	if o.Blob != 0 {
		t.Stat("c02:through-blob-helpers")
	}
	t.Logf("%d %s [%s] -> sut n=%d off=%d %s %s | os n=%d off=%d %s %s", w.step, o, flagString(h.flag), got.n, got.off, errClass(got.err), got.info, want.n, want.off, errClass(want.err), want.info)
	sig := fmt.Sprintf("%s:%s[%s%s]", w.prop, o.Kind, accName(h.flag), map[bool]string{true: "|APPEND", false: ""}[h.flag&hackpadfs.FlagAppend != 0])
	if h.isDir {
		sig += "(dir)"
	}
	fail := func(kind, extra, detail string) {
		t.Fail(kind, sig+":"+extra, fmt.Sprintf("step %d %s on handle %s of %q (%s): %s\n  sut: n=%d off=%d err=%v %s\n  os : n=%d off=%d err=%v %s", w.step, o, flagString(h.flag), h.path, sutName(w.kind), detail, got.n, got.off, got.err, got.info, want.n, want.off, want.err, want.info))
	}
	switch o.Kind {
	case "Read", "ReadAt":
		gc, wc := readClass(got.n, got.err), readClass(want.n, want.err)
		if o.N == 0 {
			// a zero-length read transfers nothing: (0, nil), (0, EOF) and a refusal are all accepted
			if got.n != 0 {
				fail("data", "bytes", "a zero-length read returned n != 0")
			}
			if wc == "fail" && gc != "fail" {
				fail("outcome", "zero-length:os=fail:sut="+gc, "os refuses this zero-length read, the handle accepts it")
			}
			break
		}
		if (gc == "fail") != (wc == "fail") {
			fail("outcome", "os="+wc+":sut="+gc, "one side fails")
		}
		if gc == "fail" && wc == "fail" && want.n == 0 && got.n != 0 {
			fail("data", "n-with-error", "a refused read claims to have transferred bytes; os.File returns 0 with the error")
		}
		if wc != "fail" {
			if got.n != want.n || !bytes.Equal(got.data, want.data) {
				fail("data", "bytes", fmt.Sprintf("transferred bytes differ (sut %d bytes, os %d bytes)", got.n, want.n))
			}
			// EOF may come with the last bytes or on the following call, never early
			if gc == "eof" && wc == "ok" {
				end := o.Off + int64(got.n)
				if o.Kind == "Read" {
					end = -2 // checked through the offset comparison below
					if cur, err := hackpadfs.SeekFile(h.ref, 0, io.SeekCurrent); err == nil {
						end = cur
					}
				}
				if refSize < 0 || end != refSize {
					fail("eof", "early-eof", fmt.Sprintf("io.EOF although the file has %d bytes and the read ended at %d", refSize, end))
				}
			}
			if gc == "ok" && wc == "eof" && o.N > 0 {
				if o.Kind == "ReadAt" && got.n < o.N {
					fail("eof", "short-readat-nil-error", "ReadAt returned fewer bytes than requested with a nil error")
				}
				if o.Kind == "Read" && got.n == 0 {
					fail("eof", "missing-eof", "Read returned (0, nil) at end of file")
				}
			}
		}
	case "Write", "WriteAt":
		if len(o.Data) == 0 {
			if got.n != 0 {
				fail("data", "n", "a zero-length write returned n != 0")
			}
			// os.File.WriteAt with nothing to write returns nil even on a read-only handle (its loop never reaches
			// the system call); a refusal there is accepted. The other direction is not: where os refuses an empty
			// write (negative offset, WriteAt on O_APPEND, a closed or read-only Write), success is a skipped check
			if want.err != nil && got.err == nil {
				fail("outcome", "zero-length:os=fail:sut=ok", "os refuses this zero-length write, the handle accepts it")
			}
			break
		}
		if (got.err == nil) != (want.err == nil) {
			fail("outcome", "os="+okFail(want.err)+":sut="+okFail(got.err), "one side fails")
		}
		if want.err == nil && got.n != want.n {
			fail("data", "n", "byte counts differ")
		}
		if want.err != nil && got.err != nil && want.n == 0 && got.n != 0 {
			fail("data", "n-with-error", "a refused write claims to have transferred bytes; os.File returns 0 with the error")
		}
	case "Seek":
		if (got.err == nil) != (want.err == nil) {
			fail("outcome", "os="+okFail(want.err)+":sut="+okFail(got.err), "one side fails")
		}
		if want.err == nil && got.off != want.off && !h.isDir {
			fail("data", "offset", "returned offsets differ")
		}
		if want.err != nil && got.err != nil && want.off == 0 && got.off != 0 {
			fail("data", "offset-with-error", "a refused Seek reports an offset; os.File returns 0 with the error")
		}
	case "Truncate", "Sync", "Chmod":
		if (got.err == nil) != (want.err == nil) {
			fail("outcome", "os="+okFail(want.err)+":sut="+okFail(got.err), "one side fails")
		}
	case "Stat":
		if (got.err == nil) != (want.err == nil) {
			fail("outcome", "os="+okFail(want.err)+":sut="+okFail(got.err), "one side fails")
		}
		if want.err == nil && got.info != want.info {
			fail("data", "info", "Stat results differ")
		}
	case "Close":
		if (got.err == nil) != (want.err == nil) {
			fail("outcome", "os="+okFail(want.err)+":sut="+okFail(got.err), "one side fails")
		}
		h.closed = true
	}
	w.compareState(sig, o)
}

// compareState: same offsets on all open seekable handles, same file bytes.
func (w *handleWorld) compareState(sig string, o hOp) {
	t := w.t
	for _, h := range w.hs {
		if h.closed || h.isDir || (w.quiet && o.Kind != "final") {
			continue
		}
		so, serr := hackpadfs.SeekFile(h.sut, 0, io.SeekCurrent)
		ro, rerr := hackpadfs.SeekFile(h.ref, 0, io.SeekCurrent)
		if rerr != nil {
			continue
		}
		if serr != nil || so != ro {
			t.Fail("offset", sig+":offset-after", fmt.Sprintf("after step %d %s: offset of handle h%d (%s) is %d (err %v) on %s, %d on os", w.step, o, h.id, flagString(h.flag), so, serr, sutName(w.kind), ro))
		}
	}
	sb, serr, rb, rerr := w.fileBytes()
	if rerr != nil {
		return // not a regular file on the reference (directory handles)
	}
	if serr != nil || !bytes.Equal(sb, rb) {
		t.Fail("contents", sig+":contents-after", fmt.Sprintf("after step %d %s: file bytes differ on %s: sut %d bytes (err %v) %q, os %d bytes %q", w.step, o, sutName(w.kind), len(sb), serr, clip(sb), len(rb), clip(rb)))
	}
	t.State(fmt.Sprintf("%x", rb))
}

func clip(b []byte) string {
	if len(b) > 48 {
		return string(b[:48]) + "..."
	}
	return string(b)
}

var hOffsets = []int64{0, 1, 3, -1, -2, 7, 10, 64, 600}
var hLens = []int{4, 0, 1, 7, 16, 100, 700}

// genHandleOp draws a handle op; size is the current file size on the reference.
func genHandleOp(t *T, nh int, size int64, step int, kinds []string, weights []int) hOp {
	c := t.C
	o := hOp{Kind: kinds[c.Weighted(weights...)], H: c.Draw(nh)}
	if c.Chance(1, 6) {
		o.Blob = 1 + c.Draw(2)
	}
	off := func() int64 {
		switch c.Weighted(3, 2, 1, 1) {
		case 0:
			return hOffsets[c.Draw(len(hOffsets))]
		case 1:
			return size
		case 2:
			return size + int64(c.Draw(5)) - 2
		default:
			return size / 2
		}
	}
	switch o.Kind {
	case "Read":
		o.N = hLens[c.Draw(len(hLens))]
	case "ReadAt":
		o.N = hLens[c.Draw(len(hLens))]
		o.Off = off()
	case "Write":
		o.Data = uniqueData(step, []int{3, 0, 1, 9, 40, 520}[c.Draw(6)])
	case "WriteAt":
		o.Data = uniqueData(step, []int{3, 0, 1, 9, 40, 520}[c.Draw(6)])
		o.Off = off()
	case "Seek":
		o.Whence = []int{io.SeekStart, io.SeekCurrent, io.SeekEnd, 7, -1}[c.Weighted(4, 3, 3, 1, 1)] // 3 and 4 are SEEK_DATA/SEEK_HOLE on Linux
		o.Off = off()
		if o.Whence != io.SeekStart {
			o.Off = []int64{0, 1, -1, 5, -5, -100, 100}[c.Draw(7)]
		}
	case "Truncate":
		o.Off = off()
	case "ReadDir":
		o.N = []int{-1, 0, 1, 2}[c.Draw(4)]
	case "Chmod":
		o.Perm = permChoices[c.Draw(len(permChoices))]
	}
	return o
}

func drawOpenFlags(t *T) int {
	c := t.C
	flag := []int{hackpadfs.FlagReadWrite, hackpadfs.FlagReadOnly, hackpadfs.FlagWriteOnly}[c.Weighted(3, 2, 2)]
	if c.Chance(1, 4) {
		flag |= hackpadfs.FlagAppend
	}
	if c.Chance(1, 6) {
		flag |= hackpadfs.FlagTruncate
	}
	if c.Chance(1, 6) {
		flag |= hackpadfs.FlagCreate
	}
	return flag
}

// runC02: 1-3 handles on one file, drawn interleaving of handle ops, judged against os.File.
func runC02(t *T) {
	c := t.C
	kind := c.Draw(3)
	defer beginTrial(t, true)()
	sut, _ := newSUT(t, kind)
	ref, _, cleanup := osTwin(t)
	defer cleanup()
	w := &handleWorld{t: t, kind: kind, sut: sut, ref: ref, path: "f", prop: "C02"}
	defer w.closeAll()
	dirMode := c.Chance(1, 10)
	if dirMode {
		w.path = "d"
		for _, fs := range []hackpadfs.FS{sut, ref} {
			must(t, hackpadfs.Mkdir(fs, "d", 0755))
			must(t, hackpadfs.WriteFullFile(fs, "d/x", []byte("x"), 0644))
		}
	} else {
		init := uniqueData(0, []int{10, 0, 1, 100, 513}[c.Draw(5)])
		if c.Chance(1, 25) {
			// a big file (beyond a MiB): size-dependent paths - capacity steps, "release the memory of a large
			// truncated file", chunked copies - only exist up here
			init = uniqueData(0, 1<<20+70000)
		}
		for _, fs := range []hackpadfs.FS{sut, ref} {
			must(t, hackpadfs.WriteFullFile(fs, "f", init, 0644))
		}
	}
	nh := 1
	if kind != sutKVCopy {
		// multi-handle coherence is judged where handles can see each other: mem.FS and the sharing store
		nh = 1 + c.Weighted(3, 2, 1)
	}
	t.Logf("sut=%s file=%s handles=%d", sutName(kind), w.path, nh)
	for i := 0; i < nh; i++ {
		flag := drawOpenFlags(t)
		if dirMode {
			flag = hackpadfs.FlagReadOnly
			if c.Chance(1, 4) {
				flag = drawOpenFlags(t)
			}
		}
		w.open(w.path, flag, 0644)
	}
	if len(w.hs) == 0 {
		return
	}
	kinds := []string{"Write", "Read", "ReadAt", "WriteAt", "Seek", "Truncate", "Stat", "Close"}
	weights := []int{6, 6, 4, 4, 5, 3, 2, 1}
	n := 1 + c.Draw(24)
	w.quiet = c.Chance(1, 2)
	if w.quiet {
		defer func() {
			if !t.Failed() {
				w.compareState("C02:final", hOp{Kind: "final"})
			}
		}()
	}
	for i := 0; i < n; i++ {
		var size int64
		if info, err := hackpadfs.Stat(ref, w.path); err == nil {
			size = info.Size()
		}
		o := genHandleOp(t, len(w.hs), size, w.step+1, kinds, weights)
		h := w.hs[o.H]
		if h.closed {
			continue // calls on closed handles belong to C17
		}
		if h.isDir && (o.Kind == "Read" || o.Kind == "ReadAt") && t.Avoid("byte-read-of-directory-handle") {
			continue
		}
		if h.isDir && o.Kind == "Seek" {
			continue // kernel-specific on the os side
		}
		w.do(o)
	}
	t.NonTrivial()
}

// c02Probe: fixed scenario on every SUT kind: initial contents, handle flags, ops.
func c02Probe(prop string, dir bool, init string, flags []int, ops ...hOp) func(t *T) {
	return func(t *T) {
		defer beginTrial(t, false)()
		for kind := 0; kind < 3; kind++ {
			if kind == sutKVCopy && len(flags) > 1 {
				continue
			}
			sut, _ := newSUT(t, kind)
			ref, _, cleanup := osTwin(t)
			func() {
				defer cleanup()
				w := &handleWorld{t: t, kind: kind, sut: sut, ref: ref, path: "f", prop: prop}
				defer w.closeAll()
				for _, fs := range []hackpadfs.FS{sut, ref} {
					if dir {
						w.path = "d"
						must(t, hackpadfs.Mkdir(fs, "d", 0755))
					} else {
						must(t, hackpadfs.WriteFullFile(fs, "f", []byte(init), 0644))
					}
				}
				for _, fl := range flags {
					w.open(w.path, fl, 0644)
				}
				for _, o := range ops {
					w.do(o)
				}
			}()
		}
	}
}

func init() {
	RegisterProbe("c02-dir-read", c02Probe("C02", true, "", []int{rdonly}, hOp{Kind: "Read", H: 0, N: 4}))
	RegisterProbe("c02-stale-size", c02Probe("C02", false, "0123456789", []int{rdonly, rdwr},
		hOp{Kind: "Stat", H: 0}, hOp{Kind: "Seek", H: 1, Off: 0, Whence: io.SeekEnd}, hOp{Kind: "Write", H: 1, Data: []byte("abcdef")}, hOp{Kind: "ReadAt", H: 0, N: 4, Off: 10}))
	RegisterProbe("c02-append-offset", c02Probe("C02", false, "0123456789", []int{rdwr | appnd}, hOp{Kind: "Write", H: 0, Data: []byte("abc")}))
	RegisterProbe("c02-append-writeat", c02Probe("C02", false, "0123456789", []int{rdwr | appnd}, hOp{Kind: "WriteAt", H: 0, Data: []byte("abc"), Off: 1}))
	RegisterProbe("c02-empty-write-grows", c02Probe("C02", false, "0123", []int{rdwr}, hOp{Kind: "WriteAt", H: 0, Data: nil, Off: 64}, hOp{Kind: "Stat", H: 0}))
	RegisterProbe("c02-negative-writeat-grows", c02Probe("C02", false, "0123", []int{rdwr}, hOp{Kind: "WriteAt", H: 0, Data: []byte("abcdefgh"), Off: -1}))
	RegisterProbe("c02-readonly-truncate", c02Probe("C02", false, "0123", []int{rdonly}, hOp{Kind: "Truncate", H: 0, Off: 1}))
	Register(&Engine{
		Prop: "C02", Name: "handlediff", Run: runC02,
		Trials: map[string]int{"quick": 50000, "thorough": 600000},
		Rule:   "a file (or, 1 in 10, a directory) prepared identically on the SUT (mem.FS, keyvalue.FS over sharing/copying SimStore) and on os.FS; 1-3 handles opened with drawn flags (1 on the copying store); 1-24 drawn handle operations (Read/ReadAt/Write/WriteAt/Seek/Truncate/Stat/Close; buffer lengths 0..700, offsets -2..beyond EOF, all whence values incl. invalid) interleaved across the handles; after every call n, bytes, normalised EOF, every handle's offset and the file bytes are compared with os.File; distinct = event-log hash; every trial with at least one open handle is non-trivial One op in six goes through the second entry point into the file: the blob package's Read/ReadAt/Write/WriteAt helpers, either on the handle itself (ReadBlob/WriteBlob...) or on the handle shown as a bare io.Reader/Writer (the helpers' fallbacks); refused calls must report no bytes and no offset; one file in 25 is larger than 1 MiB.",
		Components: map[string][]string{
			"real": {"keyvalue file handles and access-mode wrappers", "keyvalue/blob.Bytes", "mem store", "os.FS / os.File / kernel"},
			"stub": {"SimStore (keyvalue kinds)"},
		},
	})
}
