// Package blobmodel is the C19 engine: operation sequences on a Blob implementation judged against a
// []byte model in which views alias the original and slices / Bytes() are independent copies. It has
// no dependency on the rest of the harness so that the same code also builds for js/wasm.
package blobmodel

import (
	"bytes"
	"fmt"

	"github.com/hack-pad/hackpadfs/keyvalue/blob"
)

// Chooser is the choice stream.
type Chooser interface{ Draw(n int) int }

// Reporter receives the event log and the verdict. Fail must not return.
type Reporter interface {
	Logf(format string, a ...interface{})
	Fail(kind, signature, detail string)
	// IsAbort reports whether a recovered panic value is the harness's own trial abort.
	IsAbort(r interface{}) bool
}

// Factory creates an implementation blob holding a copy of data.
type Factory func(data []byte) blob.Blob

type mroot struct{ data []byte }

type obj struct {
	impl   blob.Blob
	root   *mroot
	off, n int
	view   bool
	valid  bool
	name   string
}

func (o *obj) model() []byte { return o.root.data[o.off : o.off+o.n] }

type run struct {
	c      Chooser
	r      Reporter
	impl   string
	mk     Factory
	strict bool // out-of-range arguments must be answered with an error
	ro     bool // only non-mutating calls
	// truncDetaches: views taken before a Truncate of their original are left out of the byte comparison
	// afterwards (set while the finding about the typed-array blob's copying Truncate is open)
	truncDetaches bool
	objs          []*obj
	step          int
}

func (x *run) pickObj(pred func(*obj) bool) *obj {
	var c []*obj
	for _, o := range x.objs {
		if o.valid && (pred == nil || pred(o)) {
			c = append(c, o)
		}
	}
	if len(c) == 0 {
		return nil
	}
	return c[x.c.Draw(len(c))]
}

// arg draws an index argument around [0,n]: mostly in range, sometimes -2..-1 or n+1..n+2.
func (x *run) arg(n int) int {
	switch x.c.Draw(8) {
	case 0:
		return -1 - x.c.Draw(2)
	case 1:
		return n + 1 + x.c.Draw(2)
	case 2:
		return n
	case 3:
		return 0
	default:
		return x.c.Draw(n + 1)
	}
}

func (x *run) guard(sig, what string, fn func()) {
	defer func() {
		if r := recover(); r != nil {
			if x.r.IsAbort(r) {
				panic(r) // re-raise harness aborts untouched
			}
			x.r.Fail("panic", sig+":panic", fmt.Sprintf("%s panicked: %v", what, r))
		}
	}()
	fn()
}

func (x *run) compareAll(sig, after string) {
	for _, o := range x.objs {
		if !o.valid {
			continue
		}
		var l int
		var b []byte
		x.guard(sig, "Len/Bytes of "+o.name+" after "+after, func() {
			l = o.impl.Len()
			b = o.impl.Bytes()
		})
		m := o.model()
		if l != len(m) {
			x.r.Fail("length", sig+":length", fmt.Sprintf("after %s: %s.Len() = %d, model %d", after, o.name, l, len(m)))
		}
		if !bytes.Equal(b, m) {
			x.r.Fail("bytes", sig+":bytes", fmt.Sprintf("after %s: %s.Bytes() = %q, model %q", after, o.name, clip(b), clip(m)))
		}
	}
}

func clip(b []byte) string {
	if len(b) > 40 {
		return string(b[:40]) + "..."
	}
	return string(b)
}

// invalidateViews stops comparing the bytes of views after their root was resized (whether they still
// alias is implementation specific). What is not implementation specific: a view is its own header,
// so resizing the root never changes the length a view was created with.
func (x *run) invalidateViews(root *mroot, except *obj, sig, after string, keep bool) {
	for _, o := range x.objs {
		if o.root == root && o != except && o.view && o.valid {
			l := -1
			x.guard(sig, "Len of "+o.name+" after "+after, func() { l = o.impl.Len() })
			if l != o.n {
				x.r.Fail("length", sig+":view-length-follows-parent", fmt.Sprintf("after %s the view %s has length %d; it was created with length %d", after, o.name, l, o.n))
			}
			if !keep {
				o.valid = false
			}
		}
	}
}

// resizeView: Grow/Truncate applied to a view. Only lengths are judged: the view takes its new length,
// the blob it was taken from (and every other object) keeps its own; afterwards the whole family is
// left out of the byte comparison.
func (x *run) resizeView(o *obj, k string, arg int, sigBase string) {
	what := fmt.Sprintf("%s.%s(%d) [view, len %d]", o.name, k, arg, o.n)
	var err error
	x.guard(sigBase+":view", what, func() {
		if k == "Grow" {
			err = blob.Grow(o.impl, int64(arg))
		} else {
			err = blob.Truncate(o.impl, int64(arg))
		}
	})
	x.r.Logf("%d %s -> err=%v", x.step, what, err)
	if err != nil {
		return
	}
	want := o.n + arg
	if k == "Truncate" {
		want = o.n
		if arg < o.n {
			want = arg
		}
	}
	for _, p := range x.objs {
		if !p.valid || p.root != o.root {
			continue
		}
		l := -1
		x.guard(sigBase+":view", "Len of "+p.name+" after "+what, func() { l = p.impl.Len() })
		exp := p.n
		if p == o {
			exp = want
		}
		if l != exp {
			x.r.Fail("length", sigBase+":view:resize-leaks-to-other-object", fmt.Sprintf("after %s: %s.Len() = %d, expected %d (a view and the blob it was taken from have independent lengths)", what, p.name, l, exp))
		}
		p.valid = false
	}
}

func fill(n, tag int) []byte {
	b := make([]byte, n)
	for i := range b {
		b[i] = byte('a' + (i+tag*7)%26)
	}
	return b
}

// Run executes one trial.
func Run(c Chooser, r Reporter, impl string, mk Factory, strict, readOnly bool) {
	RunOpt(c, r, impl, mk, strict, readOnly, false)
}

// RunOpt is Run with the truncDetaches relaxation selectable.
func RunOpt(c Chooser, r Reporter, impl string, mk Factory, strict, readOnly, truncDetaches bool) {
	x := &run{c: c, r: r, impl: impl, mk: mk, strict: strict, ro: readOnly, truncDetaches: truncDetaches}
	sizes := []int{8, 0, 1, 3, 16, 64}
	nroots := 1 + c.Draw(2)
	big := c.Draw(30) == 0 // one run in thirty works on blobs beyond any chunk or window size an implementation may use
	for i := 0; i < nroots; i++ {
		size := sizes[c.Draw(len(sizes))]
		if big && i == 0 {
			size = []int{70000, 140001}[c.Draw(2)]
		}
		data := fill(size, i)
		o := &obj{impl: mk(data), root: &mroot{data: append([]byte(nil), data...)}, n: len(data), valid: true, name: fmt.Sprintf("b%d", i)}
		x.objs = append(x.objs, o)
	}
	nops := 1 + c.Draw(12)
	r.Logf("impl=%s roots=%d ops=%d", impl, nroots, nops)
	for i := 0; i < nops; i++ {
		x.step = i
		x.op()
	}
}

func (x *run) op() {
	c, r := x.c, x.r
	kinds := []string{"Set", "View", "Slice", "Grow", "Truncate", "Bytes", "Len"}
	if x.ro {
		kinds = []string{"View", "Slice", "Bytes", "Len"}
	}
	k := kinds[c.Draw(len(kinds))]
	sigBase := "C19:" + x.impl + ":" + k
	switch k {
	case "View", "Slice":
		o := x.pickObj(nil)
		if o == nil {
			return
		}
		start, end := x.arg(o.n), x.arg(o.n)
		inRange := start >= 0 && end >= start && end <= o.n
		what := fmt.Sprintf("%s.%s(%d, %d) [len %d]", o.name, k, start, end, o.n)
		var res blob.Blob
		var err error
		x.guard(sigBase+rangeTag(inRange), what, func() {
			if k == "View" {
				res, err = blob.View(o.impl, int64(start), int64(end))
			} else {
				res, err = blob.Slice(o.impl, int64(start), int64(end))
			}
		})
		r.Logf("%d %s -> err=%v", x.step, what, err)
		if inRange {
			if err != nil || res == nil {
				r.Fail("in-range-refused", sigBase+":in-range:error", fmt.Sprintf("%s with in-range arguments failed: %v", what, err))
			}
			n := &obj{impl: res, valid: true, name: fmt.Sprintf("%s(%s,%d,%d)", k, o.name, start, end)}
			if k == "View" {
				n.root, n.off, n.n, n.view = o.root, o.off+start, end-start, true
			} else {
				n.root = &mroot{data: append([]byte(nil), o.model()[start:end]...)}
				n.n = end - start
			}
			x.objs = append(x.objs, n)
		} else if x.strict && err == nil {
			r.Fail("out-of-range-accepted", sigBase+":out-of-range:no-error", fmt.Sprintf("%s with out-of-range arguments returned no error", what))
		}
		x.compareAll(sigBase+rangeTag(inRange), what)
	case "Set":
		dst := x.pickObj(nil)
		src := x.pickObj(nil)
		if dst == nil || src == nil {
			return
		}
		if c.Draw(4) == 0 {
			// a source of another implementation: plain Go memory (what every Write of a []byte hands to Set)
			size := []int{3, 1, 0, 9, 20}[c.Draw(5)]
			if dst.n > 1000 && c.Draw(2) == 0 {
				size = []int{40000, 70000}[c.Draw(2)]
			}
			data := fill(size, 40+x.step)
			src = &obj{impl: blob.NewBytes(append([]byte(nil), data...)), root: &mroot{data: data}, n: len(data), valid: true, name: fmt.Sprintf("bytes[%d]", len(data))}
		}
		off := x.arg(dst.n)
		inRange := off >= 0 && off <= dst.n
		what := fmt.Sprintf("%s.Set(%s, %d) [dst len %d, src len %d]", dst.name, src.name, off, dst.n, src.n)
		alias := ""
		if src.root == dst.root {
			alias = ":aliasing"
		}
		var n int
		var err error
		x.guard(sigBase+rangeTag(inRange)+alias, what, func() { n, err = blob.Set(dst.impl, src.impl, int64(off)) })
		r.Logf("%d %s -> n=%d err=%v", x.step, what, n, err)
		if inRange && off+src.n > dst.n {
			// the source does not fit behind the offset: an implementation may copy what fits
			// (like copy()) or refuse the call; it must not do anything else
			if err == nil {
				snap := append([]byte(nil), src.model()...)
				want := copy(dst.model()[off:], snap)
				if n != want {
					r.Fail("n", sigBase+":overflow"+alias+":n", fmt.Sprintf("%s returned n=%d, but only %d bytes fit", what, n, want))
				}
			}
			x.compareAll(sigBase+":overflow"+alias, what)
			return
		}
		if inRange {
			snap := append([]byte(nil), src.model()...)
			want := copy(dst.model()[off:], snap)
			if err == nil && n != want {
				r.Fail("n", sigBase+":in-range"+alias+":n", fmt.Sprintf("%s returned n=%d, model %d", what, n, want))
			}
			if err != nil && want > 0 {
				r.Fail("in-range-refused", sigBase+":in-range"+alias+":error", fmt.Sprintf("%s with in-range arguments failed: %v", what, err))
			}
		} else if x.strict && err == nil {
			r.Fail("out-of-range-accepted", sigBase+":out-of-range:no-error", fmt.Sprintf("%s with an out-of-range offset returned no error (n=%d)", what, n))
		}
		if err != nil && n != 0 {
			// a refused Set has copied nothing (the bytes are compared below) and says so
			r.Fail("n", sigBase+rangeTag(inRange)+alias+":refused-but-n", fmt.Sprintf("%s failed (%v) and returned n=%d", what, err, n))
		}
		x.compareAll(sigBase+rangeTag(inRange)+alias, what)
	case "Grow", "Truncate":
		if c.Draw(5) == 4 {
			if v := x.pickObj(func(o *obj) bool { return o.view }); v != nil {
				arg := []int{2, 0, 1}[c.Draw(3)]
				if k == "Truncate" {
					arg = c.Draw(v.n + 1)
				}
				x.resizeView(v, k, arg, sigBase)
				return
			}
		}
		o := x.pickObj(func(o *obj) bool { return !o.view })
		if o == nil {
			return
		}
		var arg int
		if k == "Grow" {
			arg = []int{3, 0, 1, -1, -2, 17}[c.Draw(6)]
		} else {
			arg = x.arg(o.n)
		}
		inRange := arg >= 0
		what := fmt.Sprintf("%s.%s(%d) [len %d]", o.name, k, arg, o.n)
		var err error
		x.guard(sigBase+rangeTag(inRange), what, func() {
			if k == "Grow" {
				err = blob.Grow(o.impl, int64(arg))
			} else {
				err = blob.Truncate(o.impl, int64(arg))
			}
		})
		r.Logf("%d %s -> err=%v", x.step, what, err)
		if inRange {
			if err != nil {
				r.Fail("in-range-refused", sigBase+":in-range:error", fmt.Sprintf("%s failed: %v", what, err))
			}
			if k == "Grow" {
				// like append: whether the grown blob still shares memory with views taken before depends on
				// spare capacity, which is outside the model: those views are not compared any more
				o.root.data = append(append([]byte(nil), o.root.data[:o.n]...), make([]byte, arg)...)
				o.n = len(o.root.data)
				x.invalidateViews(o.root, o, sigBase+rangeTag(inRange), what, false)
			} else {
				// like b = b[:size]: the original gets shorter, the memory stays where it is, and views taken
				// before keep their own length and keep aliasing it
				if arg < o.n {
					o.n = arg
				}
				x.invalidateViews(o.root, o, sigBase+rangeTag(inRange), what, !x.truncDetaches)
			}
		} else if x.strict && err == nil {
			r.Fail("out-of-range-accepted", sigBase+":out-of-range:no-error", fmt.Sprintf("%s with a negative argument returned no error", what))
		}
		x.compareAll(sigBase+rangeTag(inRange), what)
	case "Bytes":
		o := x.pickObj(nil)
		if o == nil {
			return
		}
		what := o.name + ".Bytes()"
		var b []byte
		x.guard(sigBase, what, func() { b = o.impl.Bytes() })
		r.Logf("%d %s -> %d bytes", x.step, what, len(b))
		if !bytes.Equal(b, o.model()) {
			r.Fail("bytes", sigBase+":bytes", fmt.Sprintf("%s = %q, model %q", what, clip(b), clip(o.model())))
		}
		for i := range b {
			b[i] ^= 0xff // Bytes() is an independent copy: scribbling on it must not show
		}
		x.compareAll(sigBase+":copy-independence", what+" then modifying the returned slice")
	case "Len":
		o := x.pickObj(nil)
		if o == nil {
			return
		}
		var l int
		x.guard(sigBase, o.name+".Len()", func() { l = o.impl.Len() })
		r.Logf("%d %s.Len() -> %d", x.step, o.name, l)
		if l != o.n {
			r.Fail("length", sigBase+":length", fmt.Sprintf("%s.Len() = %d, model %d", o.name, l, o.n))
		}
	}
}

func rangeTag(in bool) string {
	if in {
		return ":in-range"
	}
	return ":out-of-range"
}
