package deviants

import (
	"fmt"
	"os"
	"strings"
	"sync/atomic"
	"syscall"
	"testing"

	"github.com/hack-pad/hackpadfs/fstest"
	"github.com/hack-pad/hackpadfs/mem"
	hos "github.com/hack-pad/hackpadfs/os"
)

// TestConformance runs the fstest FS and File suites against the file system selected by
// VERIF_DEVIANT: "ref:mem", "ref:os", "ref:wrapper" (the wrapper without deviation) or a catalogue id.
func TestConformance(t *testing.T) {
	dev := os.Getenv("VERIF_DEVIANT")
	if dev == "" {
		t.Skip("VERIF_DEVIANT not set")
	}
	options := fstest.FSOptions{Name: "sut"}
	if strings.HasSuffix(dev, "@prefix") {
		// the suite's non-default configuration for file systems that report paths below some mount point
		dev = strings.TrimSuffix(dev, "@prefix")
		options.Constraints.AllowErrPathPrefix = true
	}
	switch dev {
	case "ref:mem":
		options.TestFS = func(tb testing.TB) fstest.SetupFS {
			fs, err := mem.NewFS()
			if err != nil {
				tb.Fatal(err)
			}
			return fs
		}
	case "ref:os":
		options.TestFS = func(tb testing.TB) fstest.SetupFS {
			dir := tb.TempDir()
			fs, err := hos.NewFS().Sub(strings.TrimPrefix(dir, "/"))
			if err != nil {
				tb.Fatal(err)
			}
			return fs.(*hos.FS)
		}
	default:
		d := dev
		if d == "ref:wrapper" {
			d = ""
		}
		options.TestFS = func(tb testing.TB) fstest.SetupFS {
			fs, err := NewScoped(d, tb.Name())
			if err != nil {
				tb.Fatal(err)
			}
			if strings.HasSuffix(d, "+ReadFile") {
				return WithReadFile{fs}
			}
			return fs
		}
	}
	t.Cleanup(func() {
		// for the driver: whether a scoped deviant met its scenario at all, and whether the deviation took effect
		os.Stdout.WriteString(fmt.Sprintf("\nSCOPE-ACTIVATIONS %d\nDEVIATION-FIRED %d\n", atomic.LoadInt64(&Activations), atomic.LoadInt64(&Fired)))
	})
	fstest.FS(t, options)
	fstest.File(t, options)
}

func init() { syscall.Umask(0) }

// TestCatalogue prints the deviant ids, one per line, for the driver.
func TestCatalogue(t *testing.T) {
	if os.Getenv("VERIF_DEVIANT_LIST") == "" {
		t.Skip()
	}
	for _, id := range append(append([]string{}, Catalogue...), Scoped...) {
		os.Stdout.WriteString("DEVIANT " + id + "\n")
	}
}
