// Package deviants holds the catalogue of single-deviation wrappers around mem.FS that the fstest
// conformance suite must reject (C20): the simulator's fault-injecting FS wrapper in silent mode.
package deviants

import (
	"errors"
	"fmt"
	"io"
	"path"
	"strings"
	"sync"
	"sync/atomic"
	"syscall"
	"time"

	"github.com/hack-pad/hackpadfs"
	"github.com/hack-pad/hackpadfs/mem"
)

// Catalogue lists every deviant id "<operation>:<deviation>". Only behaviours that some scenario of the
// suite exercises belong here: e.g. no scenario reads a directory handle past its end or reads from a
// closed handle, so "ReadDir never reports io.EOF" and "Read after Close succeeds" are not listed.
var Catalogue = []string{
	// an operation that silently does nothing
	"Mkdir:noop", "MkdirAll:noop", "Remove:noop", "Rename:noop", "Chmod:noop", "Chtimes:noop",
	"file.Write:noop", "file.WriteAt:noop", "file.Truncate:noop", "file.Seek:noop", "OpenFile:trunc-ignored", "OpenFile:append-ignored",
	// applied twice
	"file.Write:twice", "Mkdir:twice-nested",
	// an entry left behind or missing
	"Rename:leaves-old", "Remove:removes-sibling-too", "Mkdir:extra-entry", "OpenFile:create-extra-entry",
	"file.ReadDir:drops-first", "file.ReadDir:duplicates-first",
	"Rename:drops-entry", "MkdirAll:drops-leaf", "Rename:drops-empty-files", "Remove:nonempty-refused-after-emptying",
	// wrong permission bits, size or bytes
	"Stat:perm", "file.Stat:perm", "Mkdir:perm", "OpenFile:create-perm", "Chmod:perm", "Stat:dir-as-file",
	"Stat:size", "file.Stat:size", "file.Read:bytes", "file.ReadAt:bytes", "file.Write:corrupts", "file.WriteAt:offset", "file.Seek:end-off-by-one", "file.Stat:name", "Stat:name", "file.ReadDir:wrong-kind",
	"Stat:modtime", "Chtimes:wrong-time",
	// wrong error kind
	"Open:missing-wrong-error", "Stat:missing-wrong-error", "Mkdir:existing-wrong-error", "Mkdir:missing-parent-wrong-error", "Remove:nonempty-wrong-error",
	"Remove:missing-wrong-error", "Rename:missing-wrong-error", "OpenFile:dir-write-wrong-error", "file.Close:second-ok", "Open:invalid-path-accepted", "file.Seek:negative-accepted", "file.Write:readonly-accepted", "file.Truncate:negative-accepted",
	"Mkdir:existing-accepted", "Remove:nonempty-accepted", "OpenFile:missing-created",
	// the work is done and a failure is reported all the same
	"Mkdir:spurious-error", "MkdirAll:spurious-error", "Remove:spurious-error", "Rename:spurious-error", "Stat:spurious-error", "Chmod:spurious-error", "Chtimes:spurious-error", "OpenFile:spurious-error",
	"file.Close:spurious-error", "file.Read:spurious-error", "file.ReadAt:spurious-error", "file.Write:spurious-error", "file.WriteAt:spurious-error", "file.Seek:spurious-error", "file.Stat:spurious-error", "file.Truncate:spurious-error", "file.ReadDir:spurious-error",
	// right kind and path, wrong concrete type: the *PathError wrapped by an annotating layer
	"Mkdir:error-wrapped", "Remove:error-wrapped", "Open:error-wrapped", "Rename:error-wrapped",
	// wrong error path
	"Open:error-path", "Stat:error-path", "Mkdir:error-path", "Remove:error-path", "Rename:error-paths",
	// run with Constraints.AllowErrPathPrefix (suffix "@prefix"): a prefix ending at an element boundary is
	// allowed there (the reference "ref:prefixed-paths@prefix" has one), one glued onto the name is not
	// (no scenario looks at the path of a Stat error for a valid name, so there is no Stat entry)
	"Open:error-path-cleaned@prefix", "Open:error-path-glued@prefix", "Mkdir:error-path-glued@prefix", "Remove:error-path-glued@prefix",
	// EOF
	"file.Read:eof-early", "file.ReadAt:missing-eof", "file.Read:short-forever",
	// the end of file reported as an error that merely wraps io.EOF (every io.Reader consumer compares with ==); this
	// entry runs on a wrapper with a ReadFile of its own, so that only the suite's own end-of-file checks see it
	"file.Read:eof-wrapped+ReadFile", "file.ReadAt:eof-wrapped",
	// correct when called alone, wrong only while another call is in flight (the verdict must not depend
	// on how many CPUs the machine running the suite has)
	"concurrent:busy",
}

// FS is mem.FS with exactly one deviation.
type FS struct {
	inner *mem.FS
	dev   string
	busy  sync.Mutex
	// inactive: a scoped deviant ("<id>#<part of a test name>") outside its scope behaves like the reference
	inactive bool
}

// Fired counts how often a deviation actually took effect in this process (its condition held where it is
// looked at). A scoped deviant whose scenario no longer exercises the deviated behaviour never fires, and the
// driver then has nothing to demand of the suite.
var Fired int64

// Activations counts the file systems made inside the scope of a scoped deviant.
var Activations int64

// exclusive is the "concurrent:busy" deviation: a tree-modifying call takes a millisecond (a store's
// latency) and any other such call arriving meanwhile is refused instead of waiting.
func (f *FS) exclusive(op, name string, fn func() error) error {
	if !f.is("concurrent:busy") {
		return fn()
	}
	if !f.busy.TryLock() {
		return &hackpadfs.PathError{Op: op, Path: name, Err: syscall.EBUSY}
	}
	defer f.busy.Unlock()
	time.Sleep(time.Millisecond)
	return fn()
}

// New returns a deviant FS; dev == "" gives the unmodified reference behaviour.
func New(dev string) (*FS, error) {
	fs, err := mem.NewFS()
	return &FS{inner: fs, dev: dev}, err
}

// NewScoped returns the deviant for a test called testName: the deviation of "<id>#<scope>" applies only where
// testName ends in <scope> (a scenario of the suite), everywhere else the file system is the reference.
func NewScoped(dev, testName string) (*FS, error) {
	scope := ""
	if i := strings.Index(dev, "#"); i >= 0 {
		dev, scope = dev[:i], dev[i+1:]
	}
	fs, err := New(dev)
	if err == nil && scope != "" {
		if strings.HasSuffix(testName, scope) {
			atomic.AddInt64(&Activations, 1)
		} else {
			fs.inactive = true
		}
	}
	return fs, err
}

// is reports whether deviation d applies here; every true answer counts as the deviation taking effect.
func (f *FS) is(d string) bool {
	if f.inactive || f.dev != d {
		return false
	}
	atomic.AddInt64(&Fired, 1)
	return true
}

// isIf is is() for deviations that only apply under a further condition of the call at hand.
func (f *FS) isIf(d string, cond bool) bool { return cond && f.is(d) }

// utc is the reference variant "ref:utc-modtime": the right instants, reported in UTC instead of the local zone.
func (f *FS) utc(t time.Time) time.Time {
	if f.dev == "ref:utc-modtime" {
		return t.UTC()
	}
	return t
}

func rePath(err error, p string) error {
	var pe *hackpadfs.PathError
	if errors.As(err, &pe) {
		return &hackpadfs.PathError{Op: pe.Op, Path: p, Err: pe.Err}
	}
	return err
}

func reKind(err error, kind error) error {
	var pe *hackpadfs.PathError
	if errors.As(err, &pe) {
		return &hackpadfs.PathError{Op: pe.Op, Path: pe.Path, Err: kind}
	}
	var le *hackpadfs.LinkError
	if errors.As(err, &le) {
		return &hackpadfs.LinkError{Op: le.Op, Old: le.Old, New: le.New, Err: kind}
	}
	return err
}

func (f *FS) Open(name string) (hackpadfs.File, error) {
	return f.OpenFile(name, hackpadfs.FlagReadOnly, 0)
}

func (f *FS) openFile0(name string, flag int, perm hackpadfs.FileMode) (hackpadfs.File, error) {
	if f.isIf("Open:invalid-path-accepted", !hackpadfs.ValidPath(name)) {
		name = path.Clean(name)
		if !hackpadfs.ValidPath(name) {
			name = "."
		}
	}
	if f.is("OpenFile:trunc-ignored") {
		flag &^= hackpadfs.FlagTruncate
	}
	if f.is("OpenFile:append-ignored") {
		flag &^= hackpadfs.FlagAppend
	}
	if f.isIf("OpenFile:create-perm", flag&hackpadfs.FlagCreate != 0) {
		perm ^= 0111
	}
	if f.isIf("OpenFile:missing-created", flag&hackpadfs.FlagCreate == 0 && flag&3 != 0) {
		flag |= hackpadfs.FlagCreate
	}
	created := false
	if flag&hackpadfs.FlagCreate != 0 {
		if _, err := f.inner.Stat(name); err != nil {
			created = true
		}
	}
	var file hackpadfs.File
	var err error
	if flag&(hackpadfs.FlagCreate|hackpadfs.FlagTruncate) != 0 {
		err = f.exclusive("open", name, func() error {
			file, err = f.inner.OpenFile(name, flag, perm)
			return err
		})
	} else {
		file, err = f.inner.OpenFile(name, flag, perm)
	}
	if err != nil {
		switch {
		case f.isIf("Open:missing-wrong-error", errors.Is(err, hackpadfs.ErrNotExist)):
			err = reKind(err, hackpadfs.ErrPermission)
		case f.isIf("OpenFile:dir-write-wrong-error", errors.Is(err, hackpadfs.ErrIsDir)):
			err = reKind(err, hackpadfs.ErrNotExist)
		case f.is("Open:error-wrapped"):
			err = fmt.Errorf("layer: %w", err)
		case f.is("Open:error-path"):
			err = rePath(err, "x/"+name)
		case f.is("ref:prefixed-paths") && hackpadfs.ValidPath(name):
			err = rePath(err, "mnt/"+name)
		case f.is("Open:error-path-cleaned"):
			// a prefix is allowed in this configuration, another path behind it is not: the unclean name foo/../bar
			// reported as mnt/bar names a different file
			err = rePath(err, "mnt/"+path.Clean(name))
		case f.isIf("Open:error-path-glued", hackpadfs.ValidPath(name)):
			err = rePath(err, "mnt"+name)
		}
		return nil, err
	}
	if created && f.is("OpenFile:create-extra-entry") {
		if x, xerr := f.inner.OpenFile(name+".extra", hackpadfs.FlagWriteOnly|hackpadfs.FlagCreate, 0644); xerr == nil {
			x.Close()
		}
	}
	return &File{fs: f, inner: file, flag: flag, name: name}, nil
}

func (f *FS) mkdir0(name string, perm hackpadfs.FileMode) error {
	switch {
	case f.is("Mkdir:noop"):
		if _, err := f.inner.Stat(name); err != nil {
			if _, perr := f.inner.Stat(path.Dir(name)); perr == nil {
				return nil
			}
		}
	case f.is("Mkdir:perm"):
		perm ^= 0111
	case f.is("Mkdir:existing-accepted"):
		if info, err := f.inner.Stat(name); err == nil && info.IsDir() {
			return nil
		}
	}
	err := f.exclusive("mkdir", name, func() error { return f.inner.Mkdir(name, perm) })
	if err == nil {
		switch {
		case f.is("Mkdir:twice-nested"):
			_ = f.inner.Mkdir(path.Join(name, path.Base(name)), perm)
		case f.is("Mkdir:extra-entry"):
			_ = f.inner.Mkdir(name+".extra", perm)
		}
		return nil
	}
	switch {
	case f.is("Mkdir:error-wrapped"):
		err = fmt.Errorf("layer: %w", err)
	case f.isIf("Mkdir:existing-wrong-error", errors.Is(err, hackpadfs.ErrExist)):
		err = reKind(err, hackpadfs.ErrNotExist)
	case f.isIf("Mkdir:missing-parent-wrong-error", errors.Is(err, hackpadfs.ErrNotExist)):
		err = reKind(err, hackpadfs.ErrExist)
	case f.is("Mkdir:error-path"):
		err = rePath(err, "x/"+name)
	case f.is("ref:prefixed-paths") && hackpadfs.ValidPath(name):
		err = rePath(err, "mnt/"+name)
	case f.isIf("Mkdir:error-path-glued", hackpadfs.ValidPath(name)):
		err = rePath(err, "mnt"+name)
	}
	return err
}

func (f *FS) mkdirAll0(name string, perm hackpadfs.FileMode) error {
	if f.isIf("MkdirAll:noop", hackpadfs.ValidPath(name)) {
		if _, err := f.inner.Stat(name); err != nil {
			return nil
		}
	}
	if f.isIf("MkdirAll:drops-leaf", hackpadfs.ValidPath(name) && name != ".") {
		if _, err := f.inner.Stat(name); err != nil {
			// the parents are made, the last directory is not, and success is reported
			return f.inner.MkdirAll(path.Dir(name), perm)
		}
	}
	return f.exclusive("mkdir", name, func() error { return f.inner.MkdirAll(name, perm) })
}

func (f *FS) remove0(name string) error {
	switch {
	case f.is("Remove:noop"):
		if _, err := f.inner.Stat(name); err == nil {
			if err := f.probeRemovable(name); err == nil {
				return nil
			}
		}
	case f.is("Remove:nonempty-accepted"):
		if err := f.inner.Remove(name); err != nil && errors.Is(err, hackpadfs.ErrNotEmpty) {
			return hackpadfs.RemoveAll(f.inner, name)
		} else {
			return err
		}
	}
	err := f.exclusive("remove", name, func() error { return f.inner.Remove(name) })
	if err == nil {
		if f.is("Remove:removes-sibling-too") {
			if ents, derr := hackpadfs.ReadDir(f.inner, path.Dir(name)); derr == nil && len(ents) > 0 {
				_ = hackpadfs.RemoveAll(f.inner, path.Join(path.Dir(name), ents[0].Name()))
			}
		}
		return nil
	}
	if f.isIf("Remove:nonempty-refused-after-emptying", errors.Is(err, hackpadfs.ErrNotEmpty)) {
		// the right refusal, noticed only after the files inside have been deleted
		if ents, derr := hackpadfs.ReadDir(f.inner, name); derr == nil {
			for _, e := range ents {
				if !e.IsDir() {
					_ = f.inner.Remove(path.Join(name, e.Name()))
				}
			}
		}
	}
	switch {
	case f.is("Remove:error-wrapped"):
		err = fmt.Errorf("layer: %w", err)
	case f.isIf("Remove:nonempty-wrong-error", errors.Is(err, hackpadfs.ErrNotEmpty)):
		err = reKind(err, hackpadfs.ErrNotExist)
	case f.isIf("Remove:missing-wrong-error", errors.Is(err, hackpadfs.ErrNotExist)):
		err = reKind(err, hackpadfs.ErrPermission)
	case f.is("Remove:error-path"):
		err = rePath(err, "x/"+name)
	case f.is("ref:prefixed-paths") && hackpadfs.ValidPath(name):
		err = rePath(err, "mnt/"+name)
	case f.isIf("Remove:error-path-glued", hackpadfs.ValidPath(name)):
		err = rePath(err, "mnt"+name)
	}
	return err
}

// probeRemovable reports whether Remove would succeed, without removing.
func (f *FS) probeRemovable(name string) error {
	info, err := f.inner.Stat(name)
	if err != nil {
		return err
	}
	if info.IsDir() {
		ents, err := hackpadfs.ReadDir(f.inner, name)
		if err != nil {
			return err
		}
		if len(ents) > 0 {
			return hackpadfs.ErrNotEmpty
		}
	}
	return nil
}

func (f *FS) rename0(oldname, newname string) error {
	switch {
	case f.is("Rename:noop"):
		if _, err := f.inner.Stat(oldname); err == nil {
			if _, err := f.inner.Stat(newname); err != nil {
				if _, err := f.inner.Stat(path.Dir(newname)); err == nil {
					return nil
				}
			}
		}
	case f.is("Rename:leaves-old"):
		if info, err := f.inner.Stat(oldname); err == nil && !info.IsDir() && oldname != newname {
			data, rerr := hackpadfs.ReadFile(f.inner, oldname)
			if rerr == nil {
				if err := f.inner.Rename(oldname, newname); err != nil {
					return err
				}
				return hackpadfs.WriteFullFile(f.inner, oldname, data, info.Mode())
			}
		}
	}
	err := f.inner.Rename(oldname, newname)
	switch {
	case err == nil:
		if f.isIf("Rename:drops-empty-files", oldname != newname) {
			// a rename-by-copy whose destination only comes into being with the first byte
			if info, serr := f.inner.Stat(newname); serr == nil && info.Mode().IsRegular() && info.Size() == 0 {
				_ = f.inner.Remove(newname)
			}
		}
		if f.isIf("Rename:drops-entry", oldname != newname) {
			// reports success, but the entry is gone under both names
			_ = hackpadfs.RemoveAll(f.inner, newname)
		}
	case f.isIf("Rename:missing-wrong-error", errors.Is(err, hackpadfs.ErrNotExist)):
		err = reKind(err, hackpadfs.ErrExist)
	case f.is("Rename:error-wrapped"):
		err = fmt.Errorf("layer: %w", err)
	case f.is("Rename:error-paths"):
		var le *hackpadfs.LinkError
		if errors.As(err, &le) {
			err = &hackpadfs.LinkError{Op: le.Op, Old: "x/" + le.Old, New: "x/" + le.New, Err: le.Err}
		}
	}
	return err
}

type devInfo struct {
	hackpadfs.FileInfo
	fs *FS
	at string // "Stat" or "file.Stat"
}

func (i devInfo) Mode() hackpadfs.FileMode {
	m := i.FileInfo.Mode()
	if i.fs.is(i.at + ":perm") {
		m ^= 0111
	}
	if i.fs.isIf(i.at+":dir-as-file", m.IsDir()) {
		m &^= hackpadfs.ModeDir
	}
	return m
}
func (i devInfo) IsDir() bool { return i.Mode().IsDir() }
func (i devInfo) Size() int64 {
	if i.fs.isIf(i.at+":size", !i.FileInfo.IsDir()) {
		return i.FileInfo.Size() + 1
	}
	return i.FileInfo.Size()
}
func (i devInfo) Name() string {
	if i.fs.is(i.at + ":name") {
		return i.FileInfo.Name() + "x"
	}
	return i.FileInfo.Name()
}
func (i devInfo) ModTime() time.Time {
	if i.fs.is(i.at + ":modtime") {
		return i.FileInfo.ModTime().Add(48 * time.Hour)
	}
	return i.fs.utc(i.FileInfo.ModTime())
}

func (f *FS) stat0(name string) (hackpadfs.FileInfo, error) {
	info, err := f.inner.Stat(name)
	if err != nil {
		switch {
		case f.isIf("Stat:missing-wrong-error", errors.Is(err, hackpadfs.ErrNotExist)):
			err = reKind(err, hackpadfs.ErrInvalid)
		case f.is("Stat:error-path"):
			err = rePath(err, "x/"+name)
		case f.is("ref:prefixed-paths") && hackpadfs.ValidPath(name):
			err = rePath(err, "mnt/"+name)
		case f.isIf("Stat:error-path-glued", hackpadfs.ValidPath(name)):
			err = rePath(err, "mnt"+name)
		}
		return nil, err
	}
	return devInfo{info, f, "Stat"}, nil
}

func (f *FS) chmod0(name string, mode hackpadfs.FileMode) error {
	if f.is("Chmod:noop") {
		if _, err := f.inner.Stat(name); err == nil {
			return nil
		}
	}
	if f.is("Chmod:perm") {
		mode ^= 0111
	}
	return f.inner.Chmod(name, mode)
}

func (f *FS) chtimes0(name string, atime, mtime time.Time) error {
	if f.is("Chtimes:noop") {
		if _, err := f.inner.Stat(name); err == nil {
			return nil
		}
	}
	if f.is("Chtimes:wrong-time") {
		mtime = mtime.Add(72 * time.Hour)
	}
	return f.inner.Chtimes(name, atime, mtime)
}

// File is a handle of the deviant FS.
type File struct {
	fs     *FS
	inner  hackpadfs.File
	flag   int
	name   string
	closed bool
	dirPos int
}

func (f *File) is(d string) bool { return f.fs.is(d) }

func (f *File) isIf(d string, cond bool) bool { return f.fs.isIf(d, cond) }

func (f *File) close0() error {
	if f.closed && f.is("file.Close:second-ok") {
		return nil
	}
	f.closed = true
	return f.inner.Close()
}

func (f *File) read0(p []byte) (int, error) {
	if f.closed && f.is("file.Read:after-close-ok") {
		return 0, io.EOF
	}
	if f.isIf("file.Read:short-forever", len(p) > 1) {
		p = p[:1]
	}
	n, err := f.inner.Read(p)
	if f.isIf("file.Read:eof-wrapped+ReadFile", err == io.EOF) {
		err = &hackpadfs.PathError{Op: "read", Path: f.name, Err: io.EOF}
	}
	if f.isIf("file.Read:bytes", n > 0) {
		p[0] ^= 0x20
	}
	if f.isIf("file.Read:eof-early", n > 1) {
		// swallow the last byte delivered and report the end
		if s, ok := f.inner.(io.Seeker); ok {
			if info, serr := f.inner.Stat(); serr == nil {
				if pos, perr := s.Seek(0, io.SeekCurrent); perr == nil && pos == info.Size() {
					return n - 1, io.EOF
				}
			}
		}
	}
	return n, err
}

func (f *File) readAt0(p []byte, off int64) (int, error) {
	n, err := hackpadfs.ReadAtFile(f.inner, p, off)
	if f.isIf("file.ReadAt:bytes", n > 0) {
		p[n-1] ^= 0x20
	}
	if f.isIf("file.ReadAt:eof-wrapped", err == io.EOF) {
		err = &hackpadfs.PathError{Op: "readat", Path: f.name, Err: io.EOF}
	}
	if f.isIf("file.ReadAt:missing-eof", err == io.EOF) {
		err = nil
	}
	return n, err
}

func (f *File) write0(p []byte) (int, error) {
	if f.flag&3 == 0 && !f.is("file.Write:readonly-accepted") {
		return hackpadfs.WriteFile(f.inner, p)
	}
	if f.flag&3 == 0 {
		return len(p), nil
	}
	switch {
	case f.is("file.Write:noop"):
		return len(p), nil
	case f.is("file.Write:twice"):
		n, err := hackpadfs.WriteFile(f.inner, p)
		if err == nil {
			_, _ = hackpadfs.WriteFile(f.inner, p)
		}
		return n, err
	case f.isIf("file.Write:corrupts", len(p) > 0):
		q := append([]byte(nil), p...)
		q[len(q)-1] ^= 0x20
		return hackpadfs.WriteFile(f.inner, q)
	}
	return hackpadfs.WriteFile(f.inner, p)
}

func (f *File) writeAt0(p []byte, off int64) (int, error) {
	switch {
	case f.isIf("file.WriteAt:noop", off >= 0 && f.flag&3 != 0):
		return len(p), nil
	case f.isIf("file.WriteAt:offset", off >= 0):
		off++
	}
	return hackpadfs.WriteAtFile(f.inner, p, off)
}

func (f *File) seek0(offset int64, whence int) (int64, error) {
	switch {
	case f.isIf("file.Seek:noop", whence >= 0 && whence <= 2 && !(whence == io.SeekStart && offset < 0)):
		cur, err := hackpadfs.SeekFile(f.inner, 0, io.SeekCurrent)
		_ = err
		// report the requested position without moving
		want, werr := hackpadfs.SeekFile(f.inner, offset, whence)
		if werr != nil {
			return want, werr
		}
		_, _ = hackpadfs.SeekFile(f.inner, cur, io.SeekStart)
		return want, nil
	case f.isIf("file.Seek:end-off-by-one", whence == io.SeekEnd):
		offset++
	case f.is("file.Seek:negative-accepted"):
		if n, err := hackpadfs.SeekFile(f.inner, offset, whence); err != nil {
			return 0, nil
		} else {
			return n, nil
		}
	}
	return hackpadfs.SeekFile(f.inner, offset, whence)
}

func (f *File) stat0() (hackpadfs.FileInfo, error) {
	info, err := f.inner.Stat()
	if err != nil {
		return nil, err
	}
	return devInfo{info, f.fs, "file.Stat"}, nil
}

func (f *File) truncate0(size int64) error {
	if f.isIf("file.Truncate:noop", size >= 0 && f.flag&3 != 0) {
		return nil
	}
	if f.isIf("file.Truncate:negative-accepted", size < 0) {
		return nil
	}
	return hackpadfs.TruncateFile(f.inner, size)
}

func (f *File) Chmod(mode hackpadfs.FileMode) error { return hackpadfs.ChmodFile(f.inner, mode) }

type devEntry struct {
	hackpadfs.DirEntry
	flip bool
}

func (e devEntry) IsDir() bool { return e.DirEntry.IsDir() != e.flip }
func (e devEntry) Type() hackpadfs.FileMode {
	if e.flip {
		return e.DirEntry.Type() ^ hackpadfs.ModeDir
	}
	return e.DirEntry.Type()
}

func (f *File) readDir0(n int) ([]hackpadfs.DirEntry, error) {
	ents, err := hackpadfs.ReadDirFile(f.inner, n)
	first := f.dirPos == 0
	f.dirPos += len(ents)
	switch {
	case f.isIf("file.ReadDir:drops-first", first && len(ents) > 0):
		ents = ents[1:]
	case f.isIf("file.ReadDir:duplicates-first", first && len(ents) > 0):
		ents = append([]hackpadfs.DirEntry{ents[0]}, ents...)
	case f.isIf("file.ReadDir:never-eof", err == io.EOF):
		err = nil
	case f.isIf("file.ReadDir:wrong-kind", len(ents) > 0):
		ents = append([]hackpadfs.DirEntry{devEntry{ents[0], true}}, ents[1:]...)
	}
	return ents, err
}

// WithReadFile is an FS that also has a ReadFile of its own (served by the reference implementation underneath).
type WithReadFile struct{ *FS }

// ReadFile implements hackpadfs.ReadFileFS
func (f WithReadFile) ReadFile(name string) ([]byte, error) { return hackpadfs.ReadFile(f.inner, name) }

// ---- "<op>:spurious-error": the operation does its work and reports a failure all the same ------------------------

var errSpurious = errors.New("spurious failure")

func (f *FS) spur(op, name string, err error) error {
	if err == nil && f.is(op+":spurious-error") {
		return &hackpadfs.PathError{Op: strings.ToLower(op[strings.LastIndex(op, ".")+1:]), Path: name, Err: errSpurious}
	}
	return err
}

func (f *FS) OpenFile(name string, flag int, perm hackpadfs.FileMode) (hackpadfs.File, error) {
	file, err := f.openFile0(name, flag, perm)
	if serr := f.spur("OpenFile", name, err); serr != err {
		_ = file.Close()
		return nil, serr
	}
	return file, err
}
func (f *FS) Mkdir(name string, perm hackpadfs.FileMode) error {
	return f.spur("Mkdir", name, f.mkdir0(name, perm))
}
func (f *FS) MkdirAll(name string, perm hackpadfs.FileMode) error {
	return f.spur("MkdirAll", name, f.mkdirAll0(name, perm))
}
func (f *FS) Remove(name string) error { return f.spur("Remove", name, f.remove0(name)) }
func (f *FS) Rename(oldname, newname string) error {
	err := f.rename0(oldname, newname)
	if err == nil && f.is("Rename:spurious-error") {
		return &hackpadfs.LinkError{Op: "rename", Old: oldname, New: newname, Err: errSpurious}
	}
	return err
}
func (f *FS) Stat(name string) (hackpadfs.FileInfo, error) {
	info, err := f.stat0(name)
	if serr := f.spur("Stat", name, err); serr != err {
		return nil, serr
	}
	return info, err
}
func (f *FS) Chmod(name string, mode hackpadfs.FileMode) error {
	return f.spur("Chmod", name, f.chmod0(name, mode))
}
func (f *FS) Chtimes(name string, atime, mtime time.Time) error {
	return f.spur("Chtimes", name, f.chtimes0(name, atime, mtime))
}

func (f *File) Close() error { return f.fs.spur("file.Close", f.name, f.close0()) }
func (f *File) Read(p []byte) (int, error) {
	n, err := f.read0(p)
	return n, f.fs.spur("file.Read", f.name, err)
}
func (f *File) ReadAt(p []byte, off int64) (int, error) {
	n, err := f.readAt0(p, off)
	return n, f.fs.spur("file.ReadAt", f.name, err)
}
func (f *File) Write(p []byte) (int, error) {
	n, err := f.write0(p)
	return n, f.fs.spur("file.Write", f.name, err)
}
func (f *File) WriteAt(p []byte, off int64) (int, error) {
	n, err := f.writeAt0(p, off)
	return n, f.fs.spur("file.WriteAt", f.name, err)
}
func (f *File) Seek(offset int64, whence int) (int64, error) {
	n, err := f.seek0(offset, whence)
	return n, f.fs.spur("file.Seek", f.name, err)
}
func (f *File) Stat() (hackpadfs.FileInfo, error) {
	info, err := f.stat0()
	if serr := f.fs.spur("file.Stat", f.name, err); serr != err {
		return nil, serr
	}
	return info, err
}
func (f *File) Truncate(size int64) error {
	return f.fs.spur("file.Truncate", f.name, f.truncate0(size))
}
func (f *File) ReadDir(n int) ([]hackpadfs.DirEntry, error) {
	ents, err := f.readDir0(n)
	return ents, f.fs.spur("file.ReadDir", f.name, err)
}
