module verif/deviants

go 1.18

require github.com/hack-pad/hackpadfs v0.0.0

replace github.com/hack-pad/hackpadfs => /repo
