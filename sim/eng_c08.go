package sim

import (
	"errors"
	"fmt"
	"sort"
	"strings"
	"time"

	"github.com/hack-pad/hackpadfs"
	"github.com/hack-pad/hackpadfs/mem"
	hos "github.com/hack-pad/hackpadfs/os"
)

var errInjectedFS = errors.New("verif: injected FS fault")

// capCore is the FaultFS core: it forwards every primitive to the inner FS through the package
// helpers, logs it, and lets a fault plan fail one call. The generated capFS_* types decide which
// optional interfaces are visible.
type capCore struct {
	t         *T
	inner     hackpadfs.FS
	calls     []string
	faultAt   int    // index of the primitive call that fails (-1: none)
	faultKind string // if set, faultAt counts only calls of this kind
	kindSeen  int
	fired     string
	faultedAt int    // index in calls of the call that failed
	live      int    // handles handed out and not yet closed
	fileMode  string // "all" | "base" | "only:<Iface>"
	short     bool   // buggify: a failing Write accepts a prefix first
	// readShape (buggify, legal io.Reader behaviour): 0 as the inner file, 1 at most half the buffer,
	// 2 one byte at a time, 3 the last bytes come together with io.EOF
	readShape  int
	label      string
	opens      map[string]int // successful Open calls per name
	reads      map[string]int // Read calls per name
	writing    map[string]int // handles open for writing, per name
	maxWriting int
	lossyClose bool // a failing Close of a written file loses the second half of it
	persistent bool // once a call has failed, every later call of the same kind fails as well
	// readErr: the error a failing Read returns instead of the harness's own (a cut-off decompressing or limited
	// stream fails with a bare io.ErrUnexpectedEOF, which a copy loop must not take for the end of the data)
	readErr error
	// notExistBelow: a fault on a name strictly below this path answers with a *PathError wrapping ErrNotExist (the
	// entry "vanished"), the error value recursive helpers like to swallow
	notExistBelow string
	partialDir    bool // a failing directory read delivers the first half of its entries together with the error (like os.ReadDir)
}

// armNext makes the next call of the given kind fail (once); disarm takes the plan back.
func (c *capCore) armNext(kind string) { c.faultKind, c.kindSeen, c.faultAt, c.fired = kind, 0, 0, "" }
func (c *capCore) disarm()             { c.faultAt = -1 }

func capKey(ifs []string) string {
	l := append([]string(nil), ifs...)
	sort.Slice(l, func(i, j int) bool { return indexOf(capIfOrder, l[i]) < indexOf(capIfOrder, l[j]) })
	return strings.Join(l, ",")
}

func indexOf(l []string, s string) int {
	for i, x := range l {
		if x == s {
			return i
		}
	}
	return -1
}

func (c *capCore) hit(kind, name string) error {
	yield(c.label + "fs." + kind + " " + name)
	i := len(c.calls)
	c.calls = append(c.calls, kind+" "+name)
	if c.faultKind != "" {
		// the faultAt-th call of that kind fails
		if kind != c.faultKind {
			return nil
		}
		i = c.kindSeen
		c.kindSeen++
	}
	if c.persistent && c.fired != "" && kind == c.fired {
		// a fault that does not go away (disk full, permission revoked): every later call of that kind fails too
		c.t.Stat("fault:fs." + kind + "(again)")
		return errInjectedFS
	}
	if i == c.faultAt && c.fired == "" {
		c.fired = kind
		c.faultedAt = len(c.calls) - 1
		c.t.Stat("fault:fs." + kind)
		c.t.Logf("FAULT: primitive call %d %s(%q) fails", i, kind, name)
		if c.notExistBelow != "" && strings.HasPrefix(name, c.notExistBelow+"/") {
			c.t.Stat("fault:fs." + kind + "(ErrNotExist)")
			return &hackpadfs.PathError{Op: strings.ToLower(kind), Path: name, Err: hackpadfs.ErrNotExist}
		}
		if kind == "file.Read" && c.readErr != nil {
			c.t.Stat("fault:fs.file.Read(" + c.readErr.Error() + ")")
			return c.readErr
		}
		return errInjectedFS
	}
	return nil
}

func (c *capCore) Open(name string) (hackpadfs.File, error) {
	if err := c.hit("Open", name); err != nil {
		return nil, err
	}
	f, err := c.inner.Open(name)
	if err != nil {
		return nil, err
	}
	if c.opens != nil {
		c.opens[name]++
	}
	return c.wrapFile(f, name), nil
}

func (c *capCore) openFile(name string, flag int, perm hackpadfs.FileMode) (hackpadfs.File, error) {
	if err := c.hit("OpenFile", name); err != nil {
		return nil, err
	}
	f, err := hackpadfs.OpenFile(c.inner, name, flag, perm)
	if err != nil {
		return nil, err
	}
	w := c.wrapFile(f, name)
	if flag&3 != 0 {
		if c.writing != nil {
			c.writing[name]++
			if c.writing[name] > c.maxWriting {
				c.maxWriting = c.writing[name]
			}
		}
		markWriter(w)
	}
	return w, nil
}

func markWriter(f hackpadfs.File) {
	switch x := f.(type) {
	case *capFileBase:
		x.writer = true
	case capFileAll:
		x.capFileBase.writer = true
	case capFileWrite:
		x.capFileBase.writer = true
	}
}

func (c *capCore) create(name string) (hackpadfs.File, error) {
	if err := c.hit("Create", name); err != nil {
		return nil, err
	}
	f, err := hackpadfs.Create(c.inner, name)
	if err != nil {
		return nil, err
	}
	return c.wrapFile(f, name), nil
}

func (c *capCore) sub(dir string) (hackpadfs.FS, error) {
	if err := c.hit("Sub", dir); err != nil {
		return nil, err
	}
	return hackpadfs.Sub(c.inner, dir)
}
func (c *capCore) mkdir(name string, perm hackpadfs.FileMode) error {
	if err := c.hit("Mkdir", name); err != nil {
		return err
	}
	return hackpadfs.Mkdir(c.inner, name, perm)
}
func (c *capCore) mkdirAll(name string, perm hackpadfs.FileMode) error {
	if err := c.hit("MkdirAll", name); err != nil {
		return err
	}
	return hackpadfs.MkdirAll(c.inner, name, perm)
}
func (c *capCore) remove(name string) error {
	if err := c.hit("Remove", name); err != nil {
		return err
	}
	return hackpadfs.Remove(c.inner, name)
}
func (c *capCore) removeAll(name string) error {
	if err := c.hit("RemoveAll", name); err != nil {
		return err
	}
	return hackpadfs.RemoveAll(c.inner, name)
}
func (c *capCore) rename(o, n string) error {
	if err := c.hit("Rename", o); err != nil {
		return err
	}
	return hackpadfs.Rename(c.inner, o, n)
}
func (c *capCore) stat(name string) (hackpadfs.FileInfo, error) {
	if err := c.hit("Stat", name); err != nil {
		return nil, err
	}
	return hackpadfs.Stat(c.inner, name)
}
func (c *capCore) lstat(name string) (hackpadfs.FileInfo, error) {
	if err := c.hit("Lstat", name); err != nil {
		return nil, err
	}
	return hackpadfs.Lstat(c.inner, name)
}
func (c *capCore) chmod(name string, m hackpadfs.FileMode) error {
	if err := c.hit("Chmod", name); err != nil {
		return err
	}
	return hackpadfs.Chmod(c.inner, name, m)
}
func (c *capCore) chown(name string, u, g int) error {
	if err := c.hit("Chown", name); err != nil {
		return err
	}
	return hackpadfs.Chown(c.inner, name, u, g)
}
func (c *capCore) chtimes(name string, a, m time.Time) error {
	if err := c.hit("Chtimes", name); err != nil {
		return err
	}
	return hackpadfs.Chtimes(c.inner, name, a, m)
}
func (c *capCore) readDir(name string) ([]hackpadfs.DirEntry, error) {
	if err := c.hit("ReadDir", name); err != nil {
		if c.partialDir {
			ents, _ := hackpadfs.ReadDir(c.inner, name)
			return ents[:len(ents)/2], err
		}
		return nil, err
	}
	return hackpadfs.ReadDir(c.inner, name)
}
func (c *capCore) readFile(name string) ([]byte, error) {
	if err := c.hit("ReadFile", name); err != nil {
		return nil, err
	}
	return hackpadfs.ReadFile(c.inner, name)
}
func (c *capCore) writeFile(name string, data []byte, perm hackpadfs.FileMode) error {
	if err := c.hit("WriteFile", name); err != nil {
		return err
	}
	return hackpadfs.WriteFullFile(c.inner, name, data, perm)
}
func (c *capCore) symlink(o, n string) error {
	if err := c.hit("Symlink", o); err != nil {
		return err
	}
	return hackpadfs.Symlink(c.inner, o, n)
}
func (c *capCore) mount(name string) (hackpadfs.FS, string) { return c.inner, name }

// ---- file wrappers -----------------------------------------------------------------------------------

// capFileBase exposes only the mandatory File methods.
type capFileBase struct {
	c      *capCore
	inner  hackpadfs.File
	name   string
	writer bool
	closed bool
}

func (f *capFileBase) Read(p []byte) (int, error) {
	if err := f.c.hit("file.Read", f.name); err != nil {
		return 0, err
	}
	if f.c.reads != nil {
		f.c.reads[f.name]++
	}
	switch {
	case len(p) == 0:
		return f.inner.Read(p)
	case f.c.readShape == 1 && len(p) > 1:
		return f.inner.Read(p[:(len(p)+1)/2])
	case f.c.readShape == 2:
		return f.inner.Read(p[:1])
	case f.c.readShape == 3:
		n, err := f.inner.Read(p)
		if err == nil && n > 0 {
			// peek: if nothing is left, report EOF together with these bytes
			var one [1]byte
			if seeker, ok := f.inner.(interface {
				Seek(int64, int) (int64, error)
			}); ok {
				m, perr := f.inner.Read(one[:])
				if m == 0 && perr != nil {
					return n, perr
				}
				if m > 0 {
					seeker.Seek(-int64(m), 1)
				}
			}
		}
		return n, err
	}
	return f.inner.Read(p)
}
func (f *capFileBase) Stat() (hackpadfs.FileInfo, error) {
	if err := f.c.hit("file.Stat", f.name); err != nil {
		return nil, err
	}
	return f.inner.Stat()
}
func (f *capFileBase) Close() error {
	if f.writer && !f.closed && f.c.writing != nil {
		f.c.writing[f.name]--
	}
	if !f.closed {
		f.c.live-- // (an attempt counts: a handle whose Close failed is not one the caller forgot)
	}
	f.closed = true
	kind := "file.Close"
	if f.writer {
		kind = "file.CloseWritten"
	}
	if err := f.c.hit(kind, f.name); err != nil {
		if f.writer && f.c.lossyClose {
			// a failing close of a written file: the tail that was still buffered is lost
			if info, serr := f.inner.Stat(); serr == nil {
				hackpadfs.TruncateFile(f.inner, info.Size()/2)
			}
		}
		f.inner.Close()
		return err
	}
	return f.inner.Close()
}

func (f *capFileBase) write(p []byte) (int, error) {
	if err := f.c.hit("file.Write", f.name); err != nil {
		if f.c.short && len(p) > 1 {
			n, _ := hackpadfs.WriteFile(f.inner, p[:len(p)/2])
			return n, err
		}
		return 0, err
	}
	return hackpadfs.WriteFile(f.inner, p)
}
func (f *capFileBase) readAt(p []byte, off int64) (int, error) {
	if err := f.c.hit("file.ReadAt", f.name); err != nil {
		return 0, err
	}
	return hackpadfs.ReadAtFile(f.inner, p, off)
}
func (f *capFileBase) writeAt(p []byte, off int64) (int, error) {
	if err := f.c.hit("file.WriteAt", f.name); err != nil {
		return 0, err
	}
	return hackpadfs.WriteAtFile(f.inner, p, off)
}
func (f *capFileBase) seek(off int64, wh int) (int64, error) {
	if err := f.c.hit("file.Seek", f.name); err != nil {
		return 0, err
	}
	return hackpadfs.SeekFile(f.inner, off, wh)
}
func (f *capFileBase) readDir(n int) ([]hackpadfs.DirEntry, error) {
	if err := f.c.hit("file.ReadDir", f.name); err != nil {
		if f.c.partialDir {
			ents, _ := hackpadfs.ReadDirFile(f.inner, n)
			return ents[:len(ents)/2], err
		}
		return nil, err
	}
	return hackpadfs.ReadDirFile(f.inner, n)
}
func (f *capFileBase) truncate(n int64) error {
	if err := f.c.hit("file.Truncate", f.name); err != nil {
		return err
	}
	return hackpadfs.TruncateFile(f.inner, n)
}
func (f *capFileBase) chmod(m hackpadfs.FileMode) error {
	if err := f.c.hit("file.Chmod", f.name); err != nil {
		return err
	}
	return hackpadfs.ChmodFile(f.inner, m)
}
func (f *capFileBase) chown(u, g int) error {
	if err := f.c.hit("file.Chown", f.name); err != nil {
		return err
	}
	return hackpadfs.ChownFile(f.inner, u, g)
}
func (f *capFileBase) chtimes(a, m time.Time) error {
	if err := f.c.hit("file.Chtimes", f.name); err != nil {
		return err
	}
	return hackpadfs.ChtimesFile(f.inner, a, m)
}
func (f *capFileBase) sync() error {
	if err := f.c.hit("file.Sync", f.name); err != nil {
		return err
	}
	return hackpadfs.SyncFile(f.inner)
}

type capFileAll struct{ *capFileBase }

func (f capFileAll) Write(p []byte) (int, error)              { return f.write(p) }
func (f capFileAll) ReadAt(p []byte, off int64) (int, error)  { return f.readAt(p, off) }
func (f capFileAll) WriteAt(p []byte, off int64) (int, error) { return f.writeAt(p, off) }
func (f capFileAll) Seek(off int64, wh int) (int64, error)    { return f.seek(off, wh) }
func (f capFileAll) ReadDir(n int) ([]hackpadfs.DirEntry, error) {
	return f.readDir(n)
}
func (f capFileAll) Truncate(n int64) error           { return f.truncate(n) }
func (f capFileAll) Chmod(m hackpadfs.FileMode) error { return f.chmod(m) }
func (f capFileAll) Chown(u, g int) error             { return f.chown(u, g) }
func (f capFileAll) Chtimes(a, m time.Time) error     { return f.chtimes(a, m) }
func (f capFileAll) Sync() error                      { return f.sync() }

type capFileWrite struct{ *capFileBase }

func (f capFileWrite) Write(p []byte) (int, error) { return f.write(p) }

type capFileReadAt struct{ *capFileBase }

func (f capFileReadAt) ReadAt(p []byte, off int64) (int, error) { return f.readAt(p, off) }

type capFileWriteAt struct{ *capFileBase }

func (f capFileWriteAt) WriteAt(p []byte, off int64) (int, error) { return f.writeAt(p, off) }

type capFileSeek struct{ *capFileBase }

func (f capFileSeek) Seek(off int64, wh int) (int64, error) { return f.seek(off, wh) }

type capFileReadDir struct{ *capFileBase }

func (f capFileReadDir) ReadDir(n int) ([]hackpadfs.DirEntry, error) { return f.readDir(n) }

type capFileTruncate struct{ *capFileBase }

func (f capFileTruncate) Truncate(n int64) error { return f.truncate(n) }

type capFileChmod struct{ *capFileBase }

func (f capFileChmod) Chmod(m hackpadfs.FileMode) error { return f.chmod(m) }

type capFileChown struct{ *capFileBase }

func (f capFileChown) Chown(u, g int) error { return f.chown(u, g) }

type capFileChtimes struct{ *capFileBase }

func (f capFileChtimes) Chtimes(a, m time.Time) error { return f.chtimes(a, m) }

type capFileSync struct{ *capFileBase }

func (f capFileSync) Sync() error { return f.sync() }

func (c *capCore) wrapFile(inner hackpadfs.File, name string) hackpadfs.File {
	b := &capFileBase{c: c, inner: inner, name: name}
	c.live++
	switch c.fileMode {
	case "", "all":
		return capFileAll{b}
	case "base":
		return b
	case "only:Write":
		return capFileWrite{b}
	case "only:ReadAt":
		return capFileReadAt{b}
	case "only:WriteAt":
		return capFileWriteAt{b}
	case "only:Seek":
		return capFileSeek{b}
	case "only:ReadDir":
		return capFileReadDir{b}
	case "only:Truncate":
		return capFileTruncate{b}
	case "only:Chmod":
		return capFileChmod{b}
	case "only:Chown":
		return capFileChown{b}
	case "only:Chtimes":
		return capFileChtimes{b}
	case "only:Sync":
		return capFileSync{b}
	}
	panic("bad fileMode " + c.fileMode)
}

// ---- engine ----------------------------------------------------------------------------------------------

var c08Helpers = []string{"MkdirAll", "RemoveAll", "WriteFullFile", "Create", "OpenFile", "Mkdir", "Remove", "Rename", "Stat", "Lstat", "LstatOrStat", "Chmod", "Chown", "Chtimes", "ReadDir", "ReadFile", "Symlink", "Sub"}

func c08Inner(t *T, kind int) (hackpadfs.FS, func()) {
	if kind == 0 {
		fs, _ := mem.NewFS()
		populate(t, fs)
		return fs, func() {}
	}
	dir, cleanup := newScratch(t)
	if kind == 2 {
		// a view of a host directory that has not been made yet: the one file system here whose root can be absent
		fs, err := hos.NewFS().Sub(strings.TrimPrefix(dir, "/") + "/absent")
		must(t, err)
		return fs, cleanup
	}
	fs, err := hos.NewFS().Sub(strings.TrimPrefix(dir, "/"))
	must(t, err)
	populate(t, fs)
	return fs, cleanup
}

func c08Op(t *T, helper string, g *fsGen) Op {
	o := Op{Kind: helper, P: g.path(), Perm: g.perm()}
	switch helper {
	case "OpenFile":
		o.Flag = g.flags()
		if t.C.Chance(1, 5) {
			o.Flag = hackpadfs.FlagReadWrite | hackpadfs.FlagCreate | hackpadfs.FlagTruncate // exactly what Create() opens with
		}
		o.Data = g.data()
	case "Create", "WriteFullFile":
		o.Data = g.data()
		if len(o.Data) == 0 {
			o.Data = []byte("c08")
		}
	case "Rename", "Symlink":
		o.Q = g.path()
	case "Chtimes":
		o.Mtime = 1234567890
	}
	return o
}

func runC08(t *T) {
	c := t.C
	defer beginTrial(t, true)()
	if c.Chance(1, 5) {
		c08FileHelpers(t)
		return
	}
	innerKind := c.Draw(2)
	if innerKind == 1 && c.Chance(1, 8) {
		innerKind = 2 // os.FS view whose root is absent; the operand is the root itself
	}
	helper := c08Helpers[c.Weighted(6, 6, 5, 3, 3, 2, 2, 2, 2, 1, 2, 2, 1, 1, 2, 2, 1, 1)]
	rel := capHelperIfs[helper]
	var mask []string
	from := rel
	if c.Chance(1, 5) {
		// a subset of the interfaces ANOTHER helper looks at (the wrapper types exist for those): a helper must not
		// start to depend on interfaces outside its own set in a way that changes what it does
		other := c08Helpers[c.Draw(len(c08Helpers))]
		if sib, ok := map[string][]string{"OpenFile": {"Create", "WriteFullFile"}, "Create": {"OpenFile"}, "WriteFullFile": {"Create"}, "Mkdir": {"MkdirAll"}, "MkdirAll": {"Mkdir"},
			"Remove": {"RemoveAll"}, "RemoveAll": {"Remove"}, "Stat": {"Lstat", "LstatOrStat"}, "Lstat": {"Stat"}, "LstatOrStat": {"Stat"}, "ReadFile": {"OpenFile"}, "ReadDir": {"OpenFile"}}[helper]; ok && c.Chance(2, 3) {
			other = sib[c.Draw(len(sib))] // preferably a helper of the same family: that is where a "counterpart" fallback gets added
		}
		from = capHelperIfs[other]
	}
	for _, i := range from {
		if c.Chance(1, 2) {
			mask = append(mask, i)
		}
	}
	innerM, cleanM := c08Inner(t, innerKind)
	defer cleanM()
	innerT, cleanT := c08Inner(t, innerKind)
	defer cleanT()
	coreM := &capCore{t: t, inner: innerM, faultAt: -1, short: c.Chance(1, 2), lossyClose: c.Chance(1, 2)}
	coreT := &capCore{t: t, inner: innerT, faultAt: -1}
	if c.Chance(1, 2) {
		coreM.faultAt = c.Weighted(5, 4, 3, 2, 2, 1, 1, 1)
	}
	// the files the masked FS hands out expose all optional methods, none, or only Write (the helpers' file-level
	// fallbacks then have to do without Truncate, Seek, ...)
	if helper == "WriteFullFile" {
		coreM.fileMode = []string{"all", "only:Write"}[c.Draw(2)]
	}
	masked := newCapFS(coreM, mask)
	twin := newCapFS(coreT, rel)
	g := newFsGen(t, []string{"d", "f", "e", "x"}, 3)
	pre := takeSnapshot(innerT, snapOpts{Special: true})
	g.observe(pre)
	o := c08Op(t, helper, g)
	if innerKind == 2 {
		// only the root as the operand: what the fallbacks make of deeper paths below a missing root (a parent they
		// cannot create one level at a time) is not comparable with os.MkdirAll's way
		o.P = "."
		if o.Q != "" {
			o.Q = "."
		}
		t.Stat("c08:absent-root")
	}
	if (o.Kind == "Remove" || o.Kind == "RemoveAll" || o.Kind == "Rename") && (o.P == "." || o.Q == ".") {
		return
	}
	if innerKind >= 1 && o.Kind == "Symlink" {
		return // symbolic links of the OS-backed FS are outside the snapshot's reach
	}
	if helper == "RemoveAll" && coreM.faultAt >= 0 && c.Chance(1, 2) {
		coreM.notExistBelow = o.P
	}
	t.Logf("inner=%s helper=%s exposed=%v of %v fault-at=%d op=%s", []string{"mem", "os.FS", "os.FS view of an absent directory"}[innerKind], helper, mask, rel, coreM.faultAt, o)
	call := func(fs hackpadfs.FS, core *capCore) Out {
		if o.Kind == "Sub" {
			sub, err := hackpadfs.Sub(fs, o.P)
			core.faultAt = -1
			out := Out{Err: err}
			if err == nil {
				ents, derr := hackpadfs.ReadDir(sub, ".")
				out.Data = fmt.Sprintf("sub listing %d %s", len(ents), errClass(derr))
			}
			return out
		}
		if o.Kind != "OpenFile" && o.Kind != "Create" {
			return applyOp(fs, o)
		}
		// the helper only opens; what the caller does with the handle afterwards is not its business
		var f hackpadfs.File
		var err error
		if o.Kind == "Create" {
			f, err = hackpadfs.Create(fs, o.P)
		} else {
			f, err = hackpadfs.OpenFile(fs, o.P, o.Flag, o.Perm)
		}
		core.faultAt = -1
		if err == nil {
			f.Close()
		}
		return Out{Err: err}
	}
	want := call(twin, coreT)
	got := call(masked, coreM)
	if coreM.live != 0 && o.Kind != "Sub" {
		// part of the final state: with all interfaces exposed no handle is left open when the helper returns (the one
		// Create/OpenFile hand out is closed by the harness above); a fallback that opens a file to do its work closes it
		t.Fail("state", "C08:"+helper+":handle-left-open:exposed="+capKey(mask), fmt.Sprintf("%s on a file system exposing only %v (of %v) returned with %d handle(s) still open; primitive calls: %v", o, mask, rel, coreM.live, coreM.calls))
	}
	t.Logf("masked=%s (%v) twin=%s; primitive calls seen: %v; fault fired: %q", errClass(got.Err), got.Err, errClass(want.Err), coreM.calls, coreM.fired)
	sm := takeSnapshot(innerM, snapOpts{Special: true})
	st := takeSnapshot(innerT, snapOpts{Special: true})
	sig := "C08:" + helper + ":" + opSig(Op{Kind: o.Kind, P: o.P, Q: o.Q, Flag: o.Flag & 3}, pre) + ":exposed=" + capKey(mask)
	where := fmt.Sprintf("%s on %s exposing only %v (of %v)", o, []string{"mem", "os.FS", "os.FS view of an absent directory"}[innerKind], mask, rel)
	if coreM.fired == "" {
		// Oracle A
		if errors.Is(got.Err, hackpadfs.ErrNotImplemented) && !errors.Is(want.Err, hackpadfs.ErrNotImplemented) {
			if sm.Text != pre.Text {
				t.Fail("unsupported-but-changed", sig+":ENOSYS-changed-state", fmt.Sprintf("%s failed with ErrNotImplemented but changed the file system:\n%s", where, diffText(sm, pre, "after ", "before")))
			}
			t.NonTrivial()
			return
		}
		if errClass(got.Err) != errClass(want.Err) {
			t.Fail("outcome", sig+":masked="+errClass(got.Err)+":full="+errClass(want.Err), fmt.Sprintf("%s: %v; with all interfaces exposed: %v", where, got.Err, want.Err))
		}
		if got.Err == nil && got.Data != want.Data {
			t.Fail("data", sig+":data", fmt.Sprintf("%s returned %q; with all interfaces exposed: %q", where, got.Data, want.Data))
		}
		if sm.Text != st.Text {
			t.Fail("state", sig+":state", fmt.Sprintf("%s left a different tree than with all interfaces exposed:\n%s", where, diffText(sm, st, "masked", "full  ")))
		}
	} else {
		// Oracle B: a primitive the helper called has failed
		sig += ":fault=" + coreM.fired
		if got.Err == nil {
			if want.Err != nil && !errors.Is(want.Err, hackpadfs.ErrNotImplemented) {
				t.Fail("silent-failure", sig+":nil-where-fault-free-run-fails", fmt.Sprintf("%s: primitive %s failed and the helper returned nil, although the same call fails when nothing goes wrong (%v): a failing primitive cannot make it succeed\nprimitive calls: %v", where, coreM.fired, want.Err, coreM.calls))
			}
			if sm.Text != st.Text {
				t.Fail("silent-failure", sig+":nil-but-not-done", fmt.Sprintf("%s: primitive %s failed, the helper returned nil, but the work was not done:\n%s\nprimitive calls: %v", where, coreM.fired, diffText(sm, st, "after the faulty run ", "after a fault-free run"), coreM.calls))
			}
			if got.Data != want.Data && want.Err == nil {
				t.Fail("silent-failure", sig+":nil-but-wrong-data", fmt.Sprintf("%s: primitive %s failed, the helper returned nil and %q instead of %q", where, coreM.fired, got.Data, want.Data))
			}
		}
		t.Stat("probe:fault-inside-fallback")
	}
	t.NonTrivial()
}

var c08FileIfs = []string{"Write", "ReadAt", "WriteAt", "Seek", "ReadDir", "Truncate", "Chmod", "Chown", "Chtimes", "Sync"}

func callFileHelper(f hackpadfs.File, which string) (string, error) {
	switch which {
	case "Write":
		n, err := hackpadfs.WriteFile(f, []byte("zz"))
		return fmt.Sprint(n), err
	case "ReadAt":
		b := make([]byte, 3)
		n, err := hackpadfs.ReadAtFile(f, b, 1)
		return fmt.Sprintf("%d %q", n, b[:n]), err
	case "WriteAt":
		n, err := hackpadfs.WriteAtFile(f, []byte("zz"), 2)
		return fmt.Sprint(n), err
	case "Seek":
		n, err := hackpadfs.SeekFile(f, 2, 0)
		return fmt.Sprint(n), err
	case "ReadDir":
		e, err := hackpadfs.ReadDirFile(f, -1)
		return fmt.Sprint(len(e)), err
	case "Truncate":
		return "", hackpadfs.TruncateFile(f, 1)
	case "Chmod":
		return "", hackpadfs.ChmodFile(f, 0600)
	case "Chown":
		return "", hackpadfs.ChownFile(f, 0, 0)
	case "Chtimes":
		return "", hackpadfs.ChtimesFile(f, time.Unix(1e9, 0), time.Unix(1e9, 0))
	case "Sync":
		return "", hackpadfs.SyncFile(f)
	}
	panic(which)
}

// c08FileZero: what callFileHelper reports when a helper transferred, listed or moved nothing.
var c08FileZero = map[string]string{"Write": "0", "WriteAt": "0", "Seek": "0", "ReadDir": "0", "ReadAt": `0 ""`}

// c08FileHelpers: method present => delegated result; absent => *PathError with ErrNotImplemented.
func c08FileHelpers(t *T) {
	c := t.C
	innerKind := c.Draw(2)
	which := c08FileIfs[c.Draw(len(c08FileIfs))]
	present := c.Chance(1, 2)
	path := "d/f"
	if which == "ReadDir" {
		path = "d"
	}
	innerM, cleanM := c08Inner(t, innerKind)
	defer cleanM()
	innerT, cleanT := c08Inner(t, innerKind)
	defer cleanT()
	mode := "base"
	if present {
		mode = "only:" + which
	}
	coreM := &capCore{t: t, inner: innerM, faultAt: -1, fileMode: mode}
	coreT := &capCore{t: t, inner: innerT, faultAt: -1, fileMode: "all"}
	flag := hackpadfs.FlagReadWrite
	if path == "d" {
		flag = hackpadfs.FlagReadOnly
	}
	fm, err := hackpadfs.OpenFile(newCapFS(coreM, []string{"OpenFile"}), path, flag, 0)
	must(t, err)
	defer fm.Close()
	ft, err := hackpadfs.OpenFile(newCapFS(coreT, []string{"OpenFile"}), path, flag, 0)
	must(t, err)
	defer ft.Close()
	// a primitive the helper relies on fails: the method itself where it is there, the Stat a helper asks for the
	// name in its refusal where it is not. Whatever the helper does about it, it does not report success
	faulty := c.Chance(1, 4)
	if faulty {
		if present {
			coreM.armNext("file." + which)
		} else {
			coreM.armNext("file.Stat")
		}
	}
	gd, gerr := callFileHelper(fm, which)
	coreM.disarm()
	wd, werr := callFileHelper(ft, which)
	t.Logf("file helper %s present=%v inner=%d fault fired=%q -> masked %q %v | full %q %v", which, present, innerKind, coreM.fired, gd, gerr, wd, werr)
	sig := fmt.Sprintf("C08:file:%s:present=%v", which, present)
	if faulty {
		if coreM.fired != "" && gerr == nil {
			t.Fail("silent-failure", sig+":fault="+coreM.fired+":nil", fmt.Sprintf("%sFile: the handle's %s failed and the helper returned nil (%q)", which, coreM.fired, gd))
		}
		if zero := c08FileZero[which]; coreM.fired != "" && !present && gd != zero {
			t.Fail("file-helper", sig+":fault="+coreM.fired+":refusal-with-result", fmt.Sprintf("%sFile on a handle without the method, whose Stat failed, returned %q together with %v", which, gd, gerr))
		}
		if coreM.fired != "" {
			t.Stat("probe:fault-inside-file-helper")
		}
		t.NonTrivial()
		return
	}
	if present {
		if errClass(gerr) != errClass(werr) || gd != wd {
			t.Fail("file-helper", sig+":differs", fmt.Sprintf("%sFile on a handle exposing the method returned (%q, %v); on a full handle (%q, %v)", which, gd, gerr, wd, werr))
		}
	} else {
		if _, ok := gerr.(*hackpadfs.PathError); !ok || !errors.Is(gerr, hackpadfs.ErrNotImplemented) {
			t.Fail("file-helper", sig+":not-ENOSYS", fmt.Sprintf("%sFile on a handle without the method returned %#v (want *PathError with ErrNotImplemented)", which, gerr))
		}
		// "changes nothing" includes claiming nothing: no bytes, entries or offset next to the refusal
		if zero := c08FileZero[which]; gd != zero {
			t.Fail("file-helper", sig+":refusal-with-result", fmt.Sprintf("%sFile on a handle without the method returned %q together with its refusal (%v)", which, gd, gerr))
		}
		if a, b := takeSnapshot(innerM, snapOpts{Special: true}), takeSnapshot(innerT, snapOpts{Special: true}); werr == nil && which != "Write" && which != "WriteAt" && which != "Truncate" && which != "Chmod" && which != "Chtimes" && a.Text != b.Text {
			_ = a
		}
	}
	t.NonTrivial()
}

// c08Probe: helper op on a mem fixture exposing only 'mask', optional fault at call index.
func c08Probe(helper string, mask []string, o Op, faultAt int) func(t *T) {
	return func(t *T) {
		defer beginTrial(t, false)()
		innerM, _ := c08Inner(t, 0)
		innerT, _ := c08Inner(t, 0)
		coreM := &capCore{t: t, inner: innerM, faultAt: faultAt}
		coreT := &capCore{t: t, inner: innerT, faultAt: -1}
		pre := takeSnapshot(innerT, snapOpts{Special: true})
		want := applyOp(newCapFS(coreT, capHelperIfs[helper]), o)
		got := applyOp(newCapFS(coreM, mask), o)
		sm, st := takeSnapshot(innerM, snapOpts{Special: true}), takeSnapshot(innerT, snapOpts{Special: true})
		sig := "C08:" + helper + ":" + opSig(Op{Kind: o.Kind, P: o.P, Q: o.Q}, pre) + ":exposed=" + capKey(mask)
		t.Logf("%s masked=%v full=%v calls=%v fired=%q", o, got.Err, want.Err, coreM.calls, coreM.fired)
		if coreM.fired == "" {
			if errors.Is(got.Err, hackpadfs.ErrNotImplemented) && sm.Text == pre.Text {
				return
			}
			if errClass(got.Err) != errClass(want.Err) {
				t.Fail("outcome", sig+":masked="+errClass(got.Err)+":full="+errClass(want.Err), fmt.Sprintf("%v vs %v", got.Err, want.Err))
			}
			if sm.Text != st.Text {
				t.Fail("state", sig+":state", diffText(sm, st, "masked", "full  "))
			}
		} else if got.Err == nil && sm.Text != st.Text {
			t.Fail("silent-failure", sig+":fault="+coreM.fired+":nil-but-not-done", diffText(sm, st, "faulty", "clean "))
		}
	}
}

func init() {
	RegisterProbe("c08-mkdirall-existing-last", c08Probe("MkdirAll", []string{"Mkdir", "Stat"}, Op{Kind: "MkdirAll", P: "e", Perm: 0755}, -1))
	RegisterProbe("c08-removeall-no-remove", c08Probe("RemoveAll", []string{"Stat", "ReadDir"}, Op{Kind: "RemoveAll", P: "e"}, -1))
	RegisterProbe("c08-removeall-final-remove-fails", c08Probe("RemoveAll", []string{"Stat", "Remove", "ReadDir"}, Op{Kind: "RemoveAll", P: "e"}, 2))
	Register(&Engine{
		Prop: "C08", Name: "capsim", Run: runC08,
		Trials: map[string]int{"quick": 60000, "thorough": 600000},
		Rule:   "a drawn helper (18 FS helpers, 10 file helpers) is called on a FaultFS exposing a drawn subset of exactly the interfaces its dispatch inspects (70 generated wrapper types over a real mem.FS or os.FS holding a fixture tree), and on a twin exposing all of them; in half of the trials one primitive call made by the fallback path (index 0..9, incl. file Read/Write/Close/Stat; a failing Write may accept a prefix first) is made to fail; judged: same outcome/data/tree as the twin or ErrNotImplemented with an unchanged tree; with a fault: nil result only if the work was really done; non-trivial = helper executed; distinct = event-log hash Also: an os.FS view of a directory that has not been made (operand: the root); file helpers with a failing method, or a failing Stat in the refusal path, must not return nil nor a result next to a refusal; handles a helper leaves open count as final state.",
		Components: map[string][]string{
			"real": {"fs.go helpers and fallbacks", "file.go helpers", "mem.FS", "os.FS"},
			"stub": {"capFS wrappers (generated capability masks + fault plan)"},
		},
	})
}
