package sim

import (
	"bytes"
	"context"
	"fmt"
	"os"
	osexec "os/exec"
	"path/filepath"
	"sort"
	"strings"
	"sync"

	"github.com/hack-pad/hackpadfs"
	"github.com/hack-pad/hackpadfs/keyvalue"
	"github.com/hack-pad/hackpadfs/keyvalue/blob"
	"github.com/hack-pad/hackpadfs/mem"
)

// ---- SimTxnStore: the real in-memory transaction store behind gates -------------------------------------------

type gatedTxnStore struct {
	inner keyvalue.TransactionStore
	plan  *faultPlan
}

func (g *gatedTxnStore) Get(ctx context.Context, p string) (keyvalue.FileRecord, error) {
	yield("store.Get " + p)
	if g.plan.hit("Get", p) {
		return nil, errInjected
	}
	r, err := g.inner.Get(ctx, p)
	return g.wrapRecord(p, r), err
}

func (g *gatedTxnStore) Set(ctx context.Context, p string, src keyvalue.FileRecord) error {
	yield("store.Set " + p)
	if g.plan.hit("Set", p) {
		return errInjected
	}
	return g.inner.Set(ctx, p, src)
}

func (g *gatedTxnStore) Transaction(o keyvalue.TransactionOptions) (keyvalue.Transaction, error) {
	yield("txn.open")
	if g.plan.hit("Transaction", "") {
		return nil, errInjected
	}
	txn, err := g.inner.Transaction(o)
	if err != nil {
		return nil, err
	}
	return &gatedTxn{g: g, inner: txn}, nil
}

type gatedTxn struct {
	g      *gatedTxnStore
	inner  keyvalue.Transaction
	paths  []string
	failed map[int]bool
}

func (t *gatedTxn) note(p string) int {
	t.paths = append(t.paths, p)
	return len(t.paths) - 1
}

func (t *gatedTxn) Get(p string) keyvalue.OpID {
	yield("txn.Get " + p)
	i := t.note(p)
	if t.g.plan.hit("Get", p) {
		t.fail(i)
	}
	return t.inner.Get(p)
}
func (t *gatedTxn) GetHandler(p string, h keyvalue.OpHandler) keyvalue.OpID {
	yield("txn.Get " + p)
	i := t.note(p)
	if t.g.plan.hit("Get", p) {
		t.fail(i)
	}
	return t.inner.GetHandler(p, h)
}
func (t *gatedTxn) Set(p string, src keyvalue.FileRecord, contents blob.Blob) keyvalue.OpID {
	yield("txn.Set " + p)
	i := t.note(p)
	if t.g.plan.hit("Set", p) {
		// a rejected Set: not applied, and its result carries the error
		t.fail(i)
		return t.inner.Get(p) // keeps the op ids aligned without touching the store
	}
	return t.inner.Set(p, src, contents)
}
func (t *gatedTxn) SetHandler(p string, src keyvalue.FileRecord, contents blob.Blob, h keyvalue.OpHandler) keyvalue.OpID {
	yield("txn.Set " + p)
	t.note(p)
	return t.inner.SetHandler(p, src, contents, h)
}
func (t *gatedTxn) fail(i int) {
	if t.failed == nil {
		t.failed = map[int]bool{}
	}
	t.failed[i] = true
}
func (t *gatedTxn) Commit(ctx context.Context) ([]keyvalue.OpResult, error) {
	yield("txn.Commit")
	if t.g.plan.hit("Commit", "") {
		// refused at commit time (quota, abort): the per-operation results are all fine and come back together
		// with the error, the way an IndexedDB transaction reports it
		res, _ := t.inner.Commit(ctx)
		return res, errInjected
	}
	res, err := t.inner.Commit(ctx)
	for i := range res {
		if t.failed[i] {
			ferr := error(errInjected)
			if t.g.plan != nil && t.g.plan.getErr != nil && i < len(t.paths) {
				ferr = t.g.plan.getErr
			}
			res[i] = keyvalue.OpResult{Op: res[i].Op, Err: ferr}
			continue
		}
		if res[i].Record != nil && i < len(t.paths) {
			res[i].Record = t.g.wrapRecord(t.paths[i], res[i].Record)
		}
	}
	return res, err
}
func (t *gatedTxn) Abort() error {
	yield("txn.Abort")
	return t.inner.Abort()
}

// gatedRecord puts gates (and fault points) before the lazy getters of a record.
type gatedRecord struct {
	keyvalue.FileRecord
	g    *gatedTxnStore
	path string
}

func (g *gatedTxnStore) wrapRecord(p string, r keyvalue.FileRecord) keyvalue.FileRecord {
	if r == nil {
		return nil
	}
	return &gatedRecord{FileRecord: r, g: g, path: p}
}

func (r *gatedRecord) Data() (blob.Blob, error) {
	yield("rec.Data " + r.path)
	if r.g.plan.hit("Data", r.path) {
		return nil, errInjected
	}
	b, err := r.FileRecord.Data()
	if err != nil || b == nil {
		return b, err
	}
	return gateBlob(b, r.path), nil
}

// gatedBlob puts a gate before every blob operation (the granularity C15 names): the bytes of a file are
// shared between handles, and the library reads and writes them outside store transactions.
type gatedBlob struct {
	inner blob.Blob
	path  string
}

func gateBlob(b blob.Blob, p string) blob.Blob {
	if g, ok := b.(*gatedBlob); ok {
		return g
	}
	return &gatedBlob{inner: b, path: p}
}

func ungateBlob(b blob.Blob) blob.Blob {
	if g, ok := b.(*gatedBlob); ok {
		return g.inner
	}
	return b
}

func (b *gatedBlob) Len() int { return b.inner.Len() }
func (b *gatedBlob) Bytes() []byte {
	yield("blob.Bytes " + b.path)
	return b.inner.Bytes()
}
func (b *gatedBlob) View(start, end int64) (blob.Blob, error) {
	yield("blob.View " + b.path)
	v, err := blob.View(b.inner, start, end)
	if err != nil || v == nil {
		return v, err
	}
	return &gatedBlob{inner: v, path: b.path}, nil
}
func (b *gatedBlob) Slice(start, end int64) (blob.Blob, error) {
	yield("blob.Slice " + b.path)
	return blob.Slice(b.inner, start, end)
}
func (b *gatedBlob) Set(src blob.Blob, offset int64) (int, error) {
	yield("blob.Set " + b.path)
	return blob.Set(b.inner, ungateBlob(src), offset) // no gate while the destination's own lock is held
}
func (b *gatedBlob) Grow(offset int64) error {
	yield("blob.Grow " + b.path)
	return blob.Grow(b.inner, offset)
}
func (b *gatedBlob) Truncate(size int64) error {
	yield("blob.Truncate " + b.path)
	return blob.Truncate(b.inner, size)
}

func (r *gatedRecord) ReadDirNames() ([]string, error) {
	yield("rec.ReadDirNames " + r.path)
	if r.g.plan.hit("ReadDirNames", r.path) {
		return nil, errInjected
	}
	return r.FileRecord.ReadDirNames()
}

// newGatedMemFS builds the real mem.FS on the real store behind the gating wrapper.
func newGatedMemFS(t *T, plan *faultPlan) (*mem.FS, *gatedTxnStore) {
	var g *gatedTxnStore
	fs, err := mem.NewFSWrapStore(func(inner keyvalue.TransactionStore) keyvalue.Store {
		g = &gatedTxnStore{inner: inner, plan: plan}
		return g
	})
	if err != nil {
		t.Fail("setup", "setup:mem.NewFSWrapStore", err.Error())
	}
	return fs, g
}

// ---- programs ---------------------------------------------------------------------------------------------------

type cOp struct {
	Op        // namespace op (Kind as in fsops) ...
	H  string // ... or a handle op on the task's own handle slot: HOpen HWrite HRead HTruncate HClose
	N  int
}

func (o cOp) String() string {
	switch o.H {
	case "":
		return o.Op.String()
	case "HOpen":
		return fmt.Sprintf("h=OpenFile(%q, %s)", o.P, flagString(o.Flag))
	case "HWrite":
		return fmt.Sprintf("h.Write(%d bytes %q)", len(o.Data), clip(o.Data))
	case "HRead":
		return fmt.Sprintf("h.Read(%d)", o.N)
	case "HTruncate":
		return fmt.Sprintf("h.Truncate(%d)", o.N)
	case "HReadDir":
		return fmt.Sprintf("h.ReadDir(%d)", o.N)
	case "HStat":
		return "h.Stat()"
	case "HWriteAt":
		return fmt.Sprintf("h.WriteAt(%d bytes %q, %d)", len(o.Data), clip(o.Data), o.N)
	case "HReadAt":
		return fmt.Sprintf("h.ReadAt(%d, %d)", o.N, o.Mtime)
	case "HSeek":
		return fmt.Sprintf("h.Seek(%d, %d)", o.N, o.Mtime)
	case "HChmod":
		return fmt.Sprintf("h.Chmod(%04o)", o.Perm)
	case "HSync":
		return "h.Sync()"
	}
	return "h.Close()"
}

// taskState holds a task's own handle.
type taskState struct{ h hackpadfs.File }

func execCOp(fs hackpadfs.FS, st *taskState, o cOp) string {
	switch o.H {
	case "":
		out := applyOp(fs, o.Op)
		return errClass(out.Err) + " " + out.Data
	case "HOpen":
		if st.h != nil {
			st.h.Close()
			st.h = nil
		}
		f, err := hackpadfs.OpenFile(fs, o.P, o.Flag, 0644)
		if err == nil {
			st.h = f
		}
		return errClass(err)
	case "HWrite":
		if st.h == nil {
			return "nohandle"
		}
		n, err := hackpadfs.WriteFile(st.h, o.Data)
		return fmt.Sprintf("%d %s", n, errClass(err))
	case "HRead":
		if st.h == nil {
			return "nohandle"
		}
		b := make([]byte, o.N)
		n, err := st.h.Read(b)
		if n < 0 || n > len(b) {
			n = 0
		}
		return fmt.Sprintf("%d %q %s", n, b[:n], errClass(err))
	case "HTruncate":
		if st.h == nil {
			return "nohandle"
		}
		return errClass(hackpadfs.TruncateFile(st.h, int64(o.N)))
	case "HReadDir":
		if st.h == nil {
			return "nohandle"
		}
		ents, err := hackpadfs.ReadDirFile(st.h, o.N)
		var l []string
		for _, e := range ents {
			k := "f"
			if e.IsDir() {
				k = "d"
			}
			l = append(l, e.Name()+":"+k)
		}
		sort.Strings(l)
		return fmt.Sprintf("%v %s", l, errClass(err))
	case "HWriteAt":
		if st.h == nil {
			return "nohandle"
		}
		n, err := hackpadfs.WriteAtFile(st.h, o.Data, int64(o.N))
		return fmt.Sprintf("%d %s", n, errClass(err))
	case "HReadAt":
		if st.h == nil {
			return "nohandle"
		}
		b := make([]byte, o.N)
		n, err := hackpadfs.ReadAtFile(st.h, b, o.Mtime)
		if n < 0 || n > len(b) {
			n = 0
		}
		return fmt.Sprintf("%d %q %s", n, b[:n], readClass(n, err))
	case "HSeek":
		if st.h == nil {
			return "nohandle"
		}
		off, err := hackpadfs.SeekFile(st.h, int64(o.N), int(o.Mtime))
		return fmt.Sprintf("%d %s", off, errClass(err))
	case "HChmod":
		if st.h == nil {
			return "nohandle"
		}
		return errClass(hackpadfs.ChmodFile(st.h, o.Perm))
	case "HSync":
		if st.h == nil {
			return "nohandle"
		}
		return errClass(hackpadfs.SyncFile(st.h))
	case "HStat":
		if st.h == nil {
			return "nohandle"
		}
		info, err := st.h.Stat()
		if err != nil {
			return errClass(err)
		}
		return "ok " + infoString(info)
	default:
		if st.h == nil {
			return "nohandle"
		}
		err := st.h.Close()
		st.h = nil
		return errClass(err)
	}
}

// genCOp draws one operation. Only operations that are a single method of the FS or of a handle are
// generated: package helpers that fall back to several primitive calls on mem.FS (WriteFullFile,
// ReadFile, ReadDir by name, RemoveAll) are sequences of operations, not operations, and appear here
// as their primitive steps on the task's own handle.
func genCOp(t *T, names []string, step int) cOp {
	c := t.C
	p := names[c.Draw(len(names))]
	switch c.Weighted(4, 5, 3, 3, 2, 2, 2, 1, 4, 3, 2, 2, 1, 1) {
	case 0:
		return cOp{Op: Op{Kind: "Mkdir", P: p, Perm: 0755}}
	case 1:
		flag := []int{hackpadfs.FlagReadWrite | hackpadfs.FlagCreate, hackpadfs.FlagReadWrite, hackpadfs.FlagWriteOnly | hackpadfs.FlagCreate | hackpadfs.FlagTruncate, hackpadfs.FlagReadWrite | hackpadfs.FlagAppend, hackpadfs.FlagWriteOnly | hackpadfs.FlagCreate | hackpadfs.FlagExclusive, hackpadfs.FlagReadOnly,
			hackpadfs.FlagReadOnly | hackpadfs.FlagCreate | hackpadfs.FlagExclusive, hackpadfs.FlagReadOnly | hackpadfs.FlagCreate, hackpadfs.FlagReadOnly | hackpadfs.FlagTruncate}[c.Draw(9)] // (creating does not depend on the access mode: the lock-file idiom opens read-only)
		return cOp{H: "HOpen", Op: Op{P: p, Flag: flag}}
	case 2:
		return cOp{Op: Op{Kind: "Remove", P: p}}
	case 3:
		return cOp{Op: Op{Kind: "Rename", P: p, Q: names[c.Draw(len(names))]}}
	case 4:
		return cOp{Op: Op{Kind: "Stat", P: p}}
	case 5:
		return cOp{Op: Op{Kind: "MkdirAll", P: p, Perm: 0700}}
	case 6:
		return cOp{Op: Op{Kind: "Chmod", P: p, Perm: []hackpadfs.FileMode{0600, 0755, 0444}[c.Draw(3)]}}
	case 7:
		return cOp{Op: Op{Kind: "Chtimes", P: p, Mtime: int64(1e9) + int64(step)}}
	case 8:
		return cOp{H: "HWrite", Op: Op{Data: uniqueData(step, []int{3, 9, 1}[c.Draw(3)])}}
	case 9:
		return cOp{H: "HRead", N: []int{4, 16, 1}[c.Draw(3)]}
	case 10:
		return cOp{H: "HReadDir", N: []int{-1, 1}[c.Draw(2)]}
	case 11:
		return cOp{H: "HTruncate", N: c.Draw(6)}
	case 12:
		return cOp{H: "HStat"}
	default:
		return cOp{H: "HClose"}
	}
}

func prefixOp(o cOp, dir string) cOp {
	if o.P != "" {
		o.P = dir + "/" + o.P
	}
	if o.Q != "" {
		o.Q = dir + "/" + o.Q
	}
	return o
}

// setupTree builds the start state shared by the concurrent run and every sequential re-execution.
func c15Setup(fs hackpadfs.FS, family int, ntasks int, init []Op) {
	if family == 0 {
		for i := 0; i < ntasks; i++ {
			hackpadfs.Mkdir(fs, fmt.Sprintf("t%d", i), 0755)
		}
	}
	for _, o := range init {
		applyOp(fs, o)
	}
}

type c15Outcome struct {
	results [][]string
	snap    string
}

func (o c15Outcome) key() string {
	var b strings.Builder
	for i, r := range o.results {
		fmt.Fprintf(&b, "task%d: %s\n", i, strings.Join(r, " | "))
	}
	b.WriteString(o.snap)
	return b.String()
}

// sequentialOutcomes runs the program in every interleaving that keeps each task's own order, one
// operation at a time, on fresh instances of the same code, and returns the set of outcomes.
func sequentialOutcomes(progs [][]cOp, family int, init []Op, limit int) (map[string]bool, int) {
	out := map[string]bool{}
	n := len(progs)
	pos := make([]int, n)
	order := []int{}
	total := 0
	for _, p := range progs {
		total += len(p)
	}
	count := 0
	var rec func()
	rec = func() {
		if count >= limit {
			return
		}
		if len(order) == total {
			count++
			fs, _ := mem.NewFS()
			c15Setup(fs, family, n, init)
			states := make([]*taskState, n)
			for i := range states {
				states[i] = &taskState{}
			}
			res := make([][]string, n)
			idx := make([]int, n)
			for _, ti := range order {
				res[ti] = append(res[ti], execCOp(fs, states[ti], progs[ti][idx[ti]]))
				idx[ti]++
			}
			for _, s := range states {
				if s.h != nil {
					s.h.Close()
				}
			}
			out[c15Outcome{res, takeSnapshot(fs, snapOpts{}).Text}.key()] = true
			return
		}
		for ti := 0; ti < n; ti++ {
			if pos[ti] < len(progs[ti]) {
				pos[ti]++
				order = append(order, ti)
				rec()
				order = order[:len(order)-1]
				pos[ti]--
			}
		}
	}
	rec()
	return out, count
}

// genC15Program draws a concurrent program: family, start tree and one operation list per task.
func genC15Program(t *T) (family int, init []Op, progs [][]cOp) {
	c := t.C
	ntasks := 2 + c.Weighted(3, 1)
	family = c.Draw(3) // 0 disjoint, 1 conflicting, 2 mixed
	names := []string{"a", "b", "a/c", "d"}
	for _, p := range names {
		switch c.Draw(4) {
		case 1:
			init = append(init, Op{Kind: "Mkdir", P: p, Perm: 0755})
		case 2:
			init = append(init, Op{Kind: "WriteFullFile", P: p, Perm: 0644, Data: []byte("init-" + p)})
		}
	}
	progs = make([][]cOp, ntasks)
	step := 0
	hot := names[c.Draw(len(names))]
	// one trial in five has a task that lists the directory a through its own handle while the others work
	// on a's child (a listing is one operation: it must not see a child half-removed)
	listTask := -1
	if c.Chance(1, 5) {
		listTask = c.Draw(ntasks)
		init = append(init, Op{Kind: "Mkdir", P: "a", Perm: 0755}, Op{Kind: "WriteFullFile", P: "a/c", Perm: 0644, Data: []byte("init-a/c")})
	}
	for i := range progs {
		n := 1 + c.Draw(3)
		handleTask := c.Chance(2, 5) && i != listTask // a task that works on its own handle of the (shared) hot name
		for j := 0; j < n; j++ {
			step++
			o := genCOp(t, names, step)
			if listTask >= 0 && i != listTask && o.H == "" && c.Chance(1, 2) {
				o.P = "a/c"
			}
			if i == listTask {
				if j == 0 {
					o = cOp{H: "HOpen", Op: Op{P: "a", Flag: hackpadfs.FlagReadOnly}}
				} else {
					o = cOp{H: "HReadDir", N: []int{-1, 1, 2}[c.Draw(3)]}
				}
			}
			if handleTask {
				if j == 0 {
					flag := []int{hackpadfs.FlagReadWrite | hackpadfs.FlagCreate, hackpadfs.FlagReadWrite, hackpadfs.FlagReadWrite | hackpadfs.FlagAppend | hackpadfs.FlagCreate, hackpadfs.FlagReadOnly}[c.Draw(4)]
					o = cOp{H: "HOpen", Op: Op{P: hot, Flag: flag}}
				} else {
					switch c.Weighted(4, 3, 1, 1, 2, 2, 1, 1, 1) {
					case 0:
						o = cOp{H: "HWrite", Op: Op{Data: uniqueData(step, []int{3, 9, 1}[c.Draw(3)])}}
					case 1:
						o = cOp{H: "HRead", N: []int{16, 4, 1}[c.Draw(3)]}
					case 2:
						o = cOp{H: "HTruncate", N: c.Draw(6)}
					case 3:
						o = cOp{H: "HStat"}
					case 4:
						o = cOp{H: "HWriteAt", N: []int{0, 2, 7, 12}[c.Draw(4)], Op: Op{Data: uniqueData(step, []int{3, 9, 1}[c.Draw(3)])}}
					case 5:
						o = cOp{H: "HReadAt", N: []int{16, 4, 1}[c.Draw(3)], Op: Op{Mtime: int64([]int{0, 2, 7}[c.Draw(3)])}}
					case 6:
						o = cOp{H: "HSeek", N: []int{0, 2, -1}[c.Draw(3)], Op: Op{Mtime: int64(c.Draw(3))}}
					case 7:
						o = cOp{H: "HChmod", Op: Op{Perm: []hackpadfs.FileMode{0600, 0644, 0400}[c.Draw(3)]}}
					default:
						o = cOp{H: "HSync"}
					}
				}
			}
			if family == 0 || (family == 2 && i == 0) {
				o = prefixOp(o, fmt.Sprintf("t%d", i))
			}
			progs[i] = append(progs[i], o)
		}
	}
	if family == 1 && listTask < 0 && c.Chance(1, 6) {
		// a reader and a rewriter of one file, each through its own handle: truncate-then-write is two
		// operations, and a read between them sees the empty file, never a mix of old and new bytes
		content, lens := []byte("init-b-0123456789"), []int{16, 4, 8}
		if c.Chance(1, 5) {
			// a big file and big reads: paths that only exist beyond some size threshold (windowed copies, "large read" fast paths)
			content, lens = uniqueData(0, 140000), []int{131072, 70000, 140000}
		}
		init = append(init, Op{Kind: "WriteFullFile", P: "b", Perm: 0644, Data: content})
		progs[0] = []cOp{{H: "HOpen", Op: Op{P: "b", Flag: hackpadfs.FlagReadOnly}}}
		for j := 0; j < 1+c.Draw(2); j++ {
			if c.Chance(1, 2) {
				progs[0] = append(progs[0], cOp{H: "HReadAt", N: lens[c.Draw(3)], Op: Op{Mtime: int64([]int{0, 2}[c.Draw(2)])}})
			} else {
				progs[0] = append(progs[0], cOp{H: "HRead", N: lens[c.Draw(3)]})
			}
		}
		step++
		progs[1] = []cOp{{H: "HOpen", Op: Op{P: "b", Flag: hackpadfs.FlagReadWrite}}, {H: "HTruncate", N: []int{0, 0, 5}[c.Draw(3)]}, {H: "HWrite", Op: Op{Data: uniqueData(step, []int{3, 1, 9}[c.Draw(3)])}}}
		if c.Chance(1, 4) {
			// or a truncating open, with whatever access mode (O_TRUNC takes effect even read-only)
			progs[1] = []cOp{{H: "HOpen", Op: Op{P: "b", Flag: []int{hackpadfs.FlagReadOnly, hackpadfs.FlagWriteOnly, hackpadfs.FlagReadWrite}[c.Draw(3)] | hackpadfs.FlagTruncate}}}
		} else if c.Chance(1, 3) {
			// or an in-place overwrite further in
			progs[1][1] = cOp{H: "HWriteAt", N: []int{0, 2, 7}[c.Draw(3)], Op: Op{Data: uniqueData(step+1, 9)}}
		}
	} else if family == 1 && listTask < 0 && c.Chance(1, 3) {
		// twins: the second task starts with the very operation the first one starts with (two creates, two
		// removes, two renames of one name: the shortest check-then-act races)
		if c.Chance(1, 3) {
			// most often raced in practice: two creating opens of one missing name (with any access mode)
			flag := []int{hackpadfs.FlagReadOnly, hackpadfs.FlagWriteOnly, hackpadfs.FlagReadWrite}[c.Draw(3)] | hackpadfs.FlagCreate
			if c.Chance(2, 3) {
				flag |= hackpadfs.FlagExclusive
			}
			progs[0][0] = cOp{H: "HOpen", Op: Op{P: "new", Flag: flag}}
		}
		progs[1][0] = progs[0][0]
	}
	if family == 2 {
		hackInit := Op{Kind: "Mkdir", P: "t0", Perm: 0755}
		init = append([]Op{hackInit}, init...)
	}
	if family == 0 {
		// the start state lives inside every task's own subtree
		var ni []Op
		for i := 0; i < ntasks; i++ {
			for _, o := range init {
				o.P = fmt.Sprintf("t%d/%s", i, o.P)
				ni = append(ni, o)
			}
		}
		init = ni
	}
	return family, init, progs
}

func runC15(t *T) {
	defer beginTrial(t, true)()
	family, init, progs := genC15Program(t)
	ntasks := len(progs)
	famName := []string{"disjoint", "conflicting", "mixed"}[family]
	t.Logf("family=%s tasks=%d", famName, ntasks)
	for i, p := range progs {
		t.Logf("task%d: %v", i, p)
	}
	results := make([][]string, ntasks)
	var snap string
	inBubble(t, 20000, func(s *Sched) {
		fs, _ := newGatedMemFS(t, nil)
		c15Setup(fs, family, ntasks, init)
		for i := 0; i < ntasks; i++ {
			i := i
			s.Go(fmt.Sprintf("task%d", i), func() {
				st := &taskState{}
				for _, o := range progs[i] {
					r := execCOp(fs, st, o)
					results[i] = append(results[i], r)
					t.Logf("task%d: %s -> %s", i, o, r)
				}
				if st.h != nil {
					st.h.Close()
				}
			})
		}
		s.Run()
		if !t.Failed() {
			snap = takeSnapshot(fs, snapOpts{}).Text
		}
	})
	if t.Failed() {
		return
	}
	got := c15Outcome{results, snap}
	seq, orders := sequentialOutcomes(progs, family, init, 2000)
	t.StatAdd("sequential_orders_executed", int64(orders))
	if !seq[got.key()] {
		var kinds []string
		for _, p := range progs {
			for _, o := range p {
				k := o.H
				if k == "" {
					k = o.Kind
				}
				kinds = append(kinds, k)
			}
		}
		sort.Strings(kinds)
		var ex []string
		for k := range seq {
			ex = append(ex, k)
		}
		sort.Strings(ex)
		if len(ex) > 2 {
			ex = ex[:2]
		}
		t.Fail("not-serialisable", "C15:not-serialisable:"+famName+":"+strings.Join(dedup(kinds), ","),
			fmt.Sprintf("the concurrent run's results and final tree match none of the %d sequential orders of the same operations (%d distinct outcomes).\nconcurrent:\n%s\nsequential outcomes (first %d):\n%s", orders, len(seq), got.key(), len(ex), strings.Join(ex, "\n--\n")))
	}
	t.State(snap)
	t.NonTrivial()
}

func dedup(l []string) []string {
	var out []string
	for i, s := range l {
		if i == 0 || l[i-1] != s {
			out = append(out, s)
		}
	}
	return out
}

func init() {
	Register(&Engine{
		Prop: "C15", Name: "concsim", Run: runC15, Aux: c15RaceAux, AuxReplay: c15AuxReplay,
		Trials: map[string]int{"quick": 15000, "thorough": 250000},
		Rule:   "programs of 2-3 tasks x 1-3 operations (namespace ops and Open/Write/Read/Truncate/Close on the task's own handle) over 4 names and a drawn start tree, in three families (disjoint subtrees, conflicting names, mixed); run on the real mem.FS whose real store sits behind a gating wrapper, under the seeded scheduler with gates at transaction open (lock gate on the store mutex), every Get/Set/Commit/Abort, every lazy Data()/ReadDirNames(), every blob mutex acquisition and every FS-level lock, listing order permuted; judged: no panic, no deadlock, and (all op results, final tree) equals the outcome of some order of the same operations that keeps each task's own order, obtained by re-executing the program sequentially on fresh instances of the same code (all orders, at most 1680); every completed program is non-trivial; distinct = event-log hash (program + schedule)",
		Components: map[string][]string{
			"real": {"mem.FS", "mem store + real mutex", "keyvalue.FS / file / runOnceFileRecord", "keyvalue/blob.Bytes + real mutex"},
			"stub": {"gating wrapper around the store (forwards every call)"},
		},
	})
}

// ---- auxiliary, outside the technique family: free-running execution under the race detector ----------------------

// raceFreeRun runs drawn programs with real, unscheduled goroutines, reps times each. It is compiled
// into the -race build of the harness; a data race makes the runtime print a report and exit.
func raceFreeRun(seed uint64, programs, reps int) {
	for pi := 0; pi < programs; pi++ {
		t := newT(NewSearchStream(mixSeed(seed, "C15-race", uint64(pi))), "C15", "quick", false, nil)
		family, init, progs := genC15Program(t)
		for r := 0; r < reps; r++ {
			fs, _ := mem.NewFS()
			c15Setup(fs, family, len(progs), init)
			var wg sync.WaitGroup
			for i := range progs {
				wg.Add(1)
				go func(i int) {
					defer wg.Done()
					defer func() { recover() }()
					st := &taskState{}
					for _, o := range progs[i] {
						execCOp(fs, st, o)
					}
					if st.h != nil {
						st.h.Close()
					}
				}(i)
			}
			wg.Wait()
		}
	}
}

func c15RaceAux(d *driver) ([]string, map[string]interface{}) {
	notes := map[string]interface{}{}
	bin := filepath.Join(os.Getenv("VERIF_BUILD"), "sim-race.test")
	if _, err := os.Stat(bin); err != nil {
		notes["race_detector_pass"] = "not run: the -race build of the harness is missing"
		d.infraErrs = append(d.infraErrs, "C15 auxiliary race pass: "+err.Error())
		return nil, notes
	}
	programs, reps := 300, 30
	if d.tier == "thorough" {
		programs, reps = 20000, 50
	}
	nw := d.nworkers
	per := (programs + nw - 1) / nw
	var mu sync.Mutex
	var lines []string
	var wg sync.WaitGroup
	for w := 0; w < nw; w++ {
		wg.Add(1)
		go func(w int) {
			defer wg.Done()
			cmd := osexec.Command(bin, "-test.run", "^TestRaceFree$", "-test.timeout", "0")
			cmd.Env = append(os.Environ(), "VERIF_ROLE=race", "GORACE=halt_on_error=1 exitcode=66",
				fmt.Sprintf("VERIF_RACE_SEED=%d", d.seed*1000+uint64(w)), fmt.Sprintf("VERIF_RACE_PROGRAMS=%d", per), fmt.Sprintf("VERIF_RACE_REPS=%d", reps))
			out, err := cmd.CombinedOutput()
			if err != nil && bytes.Contains(out, []byte("DATA RACE")) {
				mu.Lock()
				defer mu.Unlock()
				if len(lines) > 0 {
					return
				}
				tr := &TrialResult{Trial: uint64(w), Seed: d.seed*1000 + uint64(w), Trace: strings.Split(lastLines(string(out), 60), "\n"),
					Violation: &Violation{Property: "C15", Engine: "concsim/race-detector", Kind: "race", Signature: "C15:data-race",
						Detail: "free-running parallel execution under the race detector reported a data race (runtime monitoring, replays only probabilistically):\n" + lastLines(string(out), 40)}}
				path := d.writeReplayEngine(tr, nil, nil, "concsim/race-detector")
				fmt.Printf("violation kind=race (auxiliary race-detector pass)\n%s\n", tr.Violation.Detail)
				lines = append(lines, fmt.Sprintf("VIOLATION property=C15 replay=%s", path))
			} else if err != nil {
				mu.Lock()
				d.infraErrs = append(d.infraErrs, "C15 auxiliary race pass: "+err.Error()+": "+lastLines(string(out), 3))
				mu.Unlock()
			}
		}(w)
	}
	wg.Wait()
	notes["race_detector_pass"] = map[string]interface{}{"what": "auxiliary, runtime monitoring and not simulation: the same program generator, real unscheduled goroutines on a plain mem.FS, under -race", "programs": per * nw, "repetitions_each": reps}
	return lines, notes
}

func c15RaceReplay(d *driver, rf *replayFile, path string) int {
	bin := filepath.Join(os.Getenv("VERIF_BUILD"), "sim-race.test")
	cmd := osexec.Command(bin, "-test.run", "^TestRaceFree$", "-test.timeout", "0")
	cmd.Env = append(os.Environ(), "VERIF_ROLE=race", "GORACE=halt_on_error=1 exitcode=66", fmt.Sprintf("VERIF_RACE_SEED=%d", rf.TrialSeed), "VERIF_RACE_PROGRAMS=2000", "VERIF_RACE_REPS=50")
	out, err := cmd.CombinedOutput()
	if err != nil && bytes.Contains(out, []byte("DATA RACE")) {
		fmt.Println(lastLines(string(out), 40))
		fmt.Printf("VIOLATION property=C15 replay=%s\n", path)
		return 1
	}
	fmt.Printf("replay of %s: no race reported this time (this part replays only probabilistically)\n", path)
	return 0
}

func c15AuxReplay(d *driver, rf *replayFile, path string) int { return c15RaceReplay(d, rf, path) }
