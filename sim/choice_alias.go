package sim

import "verif/sim/choice"

// Stream is the choice stream (package choice, shared with the js/wasm blob runner).
type Stream = choice.Stream

var (
	NewSearchStream = choice.NewSearchStream
	NewReplayStream = choice.NewReplayStream
	mixSeed         = choice.MixSeed
)
