package sim

import (
	"crypto/sha1"
	"errors"
	"fmt"
	"io"
	"os"
	"path"
	"sort"
	"strings"
	"sync/atomic"
	"syscall"

	"github.com/hack-pad/hackpadfs"
	hos "github.com/hack-pad/hackpadfs/os"
)

func init() {
	syscall.Umask(0)
}

// errClass is the outcome class of a call: "ok", the first matching sentinel, or "other".
func errClass(err error) string {
	switch {
	case err == nil:
		return "ok"
	case errors.Is(err, hackpadfs.ErrNotExist):
		return "ErrNotExist"
	case errors.Is(err, hackpadfs.ErrExist):
		return "ErrExist"
	case errors.Is(err, hackpadfs.ErrIsDir):
		return "ErrIsDir"
	case errors.Is(err, hackpadfs.ErrNotDir):
		return "ErrNotDir"
	case errors.Is(err, hackpadfs.ErrNotEmpty):
		return "ErrNotEmpty"
	case errors.Is(err, hackpadfs.ErrInvalid):
		return "ErrInvalid"
	case errors.Is(err, hackpadfs.ErrClosed):
		return "ErrClosed"
	case errors.Is(err, hackpadfs.ErrNotImplemented):
		return "ErrNotImplemented"
	case errors.Is(err, hackpadfs.ErrPermission):
		return "ErrPermission"
	case err == io.EOF:
		return "EOF"
	}
	return "other"
}

func okFail(err error) string {
	if err == nil {
		return "ok"
	}
	return "fail"
}

// errShape describes the concrete type and path fields of an error (C05).
type errShape struct {
	Type string // PathError | LinkError | bare
	Path string
	Old  string
	New  string
}

func shapeOf(err error) errShape {
	switch e := err.(type) {
	case *hackpadfs.PathError:
		return errShape{Type: "PathError", Path: e.Path}
	case *hackpadfs.LinkError:
		return errShape{Type: "LinkError", Old: e.Old, New: e.New}
	case *os.LinkError:
		return errShape{Type: "os.LinkError", Old: e.Old, New: e.New}
	case nil:
		return errShape{Type: "nil"}
	}
	return errShape{Type: fmt.Sprintf("bare(%T)", err)}
}

// ---- scratch directories for the os twin -----------------------------------------------------------

var scratchSeq int64

func scratchBase() string {
	if st, err := os.Stat("/dev/shm"); err == nil && st.IsDir() {
		return "/dev/shm"
	}
	return os.TempDir()
}

// newScratch creates a fresh empty directory and returns it with a cleanup func.
func newScratch(t *T) (string, func()) {
	n := atomic.AddInt64(&scratchSeq, 1)
	dir := fmt.Sprintf("%s/verif-%d-%d", scratchBase(), os.Getpid(), n)
	os.RemoveAll(dir)
	if err := os.Mkdir(dir, 0777); err != nil {
		t.Infra("scratch dir: %v", err)
	}
	return dir, func() {
		// make everything removable even after chmod 0
		os.RemoveAll(dir)
	}
}

// osTwin returns os.FS rooted at a fresh scratch directory.
func osTwin(t *T) (hackpadfs.FS, string, func()) {
	dir, cleanup := newScratch(t)
	fs, err := hos.NewFS().Sub(strings.TrimPrefix(dir, "/"))
	if err != nil {
		cleanup()
		t.Infra("os twin: %v", err)
	}
	return fs, dir, cleanup
}

// ---- snapshots ---------------------------------------------------------------------------------------

type entryInfo struct {
	Kind string // "d" or "f"
	Perm hackpadfs.FileMode
	Size int64
}

type snapshot struct {
	Lines   []string
	Entries map[string]entryInfo // reachable by listing from the root
	Text    string
}

type snapOpts struct {
	Probe     []string         // candidate paths Stat'ed in addition to the walk (closure probing)
	Pinned    map[string]int64 // path -> unix seconds: compare mtime for these
	NoPerm    bool
	NoContent bool
	Special   bool // also show the setuid, setgid and sticky bits
}

// takeSnapshot walks fs from the root with ReadDir + Stat + ReadFile and probes candidate paths.
func takeSnapshot(fs hackpadfs.FS, o snapOpts) *snapshot {
	s := &snapshot{Entries: map[string]entryInfo{}}
	var walk func(dir string, depth int)
	walk = func(dir string, depth int) {
		if depth > 8 {
			s.Lines = append(s.Lines, dir+" TOO-DEEP")
			return
		}
		ents, err := hackpadfs.ReadDir(fs, dir)
		if err != nil {
			s.Lines = append(s.Lines, fmt.Sprintf("%s READDIR-ERR %s", dir, errClass(err)))
			return
		}
		names := make([]string, 0, len(ents))
		kinds := map[string]bool{}
		for _, e := range ents {
			names = append(names, e.Name())
			kinds[e.Name()] = e.IsDir()
		}
		sort.Strings(names)
		for i, n := range names {
			if i > 0 && names[i-1] == n {
				s.Lines = append(s.Lines, fmt.Sprintf("%s DUPLICATE-IN-LISTING", path.Join(dir, n)))
				continue
			}
			p := path.Join(dir, n)
			info, err := hackpadfs.Stat(fs, p)
			if err != nil {
				s.Lines = append(s.Lines, fmt.Sprintf("%s STAT-ERR %s", p, errClass(err)))
				continue
			}
			line := p
			ei := entryInfo{Perm: info.Mode().Perm()}
			if info.IsDir() {
				ei.Kind = "d"
				line += " d"
			} else {
				ei.Kind = "f"
				line += " f"
			}
			if info.IsDir() != kinds[n] {
				line += " KIND-DISAGREES-WITH-LISTING"
			}
			if !o.NoPerm {
				line += fmt.Sprintf(" %04o", info.Mode().Perm())
				if sp := info.Mode() & (hackpadfs.ModeSetuid | hackpadfs.ModeSetgid | hackpadfs.ModeSticky); o.Special && sp != 0 {
					line += "+" + strings.TrimLeft(sp.String(), "-")
				}
			}
			if !info.IsDir() {
				ei.Size = info.Size()
				line += fmt.Sprintf(" size=%d", info.Size())
				if !o.NoContent {
					b, err := hackpadfs.ReadFile(fs, p)
					if err != nil {
						line += " READFILE-ERR " + errClass(err)
					} else {
						if int64(len(b)) != info.Size() {
							line += fmt.Sprintf(" READLEN=%d", len(b))
						}
						line += fmt.Sprintf(" sha=%x", sha1.Sum(b))[:16+5]
					}
				}
			}
			if ts, ok := o.Pinned[p]; ok {
				if info.ModTime().Unix() == ts {
					line += " mtime=pinned-ok"
				} else {
					line += fmt.Sprintf(" mtime=%d(pinned %d)", info.ModTime().Unix(), ts)
				}
			}
			s.Entries[p] = ei
			s.Lines = append(s.Lines, line)
			if info.IsDir() {
				walk(p, depth+1)
			}
		}
	}
	rootInfo, err := hackpadfs.Stat(fs, ".")
	switch {
	case err != nil:
		s.Lines = append(s.Lines, ". ROOT-STAT-ERR "+errClass(err))
	case !rootInfo.IsDir():
		s.Lines = append(s.Lines, ". ROOT-NOT-A-DIRECTORY")
	default:
		walk(".", 0)
	}
	for _, c := range o.Probe {
		if _, seen := s.Entries[c]; seen || c == "." {
			continue
		}
		info, err := hackpadfs.Stat(fs, c)
		if err == nil {
			k := "f"
			if info.IsDir() {
				k = "d"
			}
			s.Lines = append(s.Lines, fmt.Sprintf("%s HIDDEN-BUT-STATABLE %s", c, k))
		}
	}
	sort.Strings(s.Lines)
	s.Text = strings.Join(s.Lines, "\n")
	return s
}

// diffText shows the first differing lines of two canonical snapshots.
func diffText(a, b *snapshot, an, bn string) string {
	am := map[string]bool{}
	bm := map[string]bool{}
	for _, l := range a.Lines {
		am[l] = true
	}
	for _, l := range b.Lines {
		bm[l] = true
	}
	var out []string
	for _, l := range a.Lines {
		if !bm[l] {
			out = append(out, an+": "+l)
		}
	}
	for _, l := range b.Lines {
		if !am[l] {
			out = append(out, bn+": "+l)
		}
	}
	if len(out) > 12 {
		out = append(out[:12], "...")
	}
	return strings.Join(out, "\n")
}

// candidatePaths is the closure of all paths up to depth k over the alphabet.
func candidatePaths(alpha []string, k int) []string {
	var out []string
	var rec func(prefix string, d int)
	rec = func(prefix string, d int) {
		if d == 0 {
			return
		}
		for _, a := range alpha {
			p := a
			if prefix != "" {
				p = prefix + "/" + a
			}
			out = append(out, p)
			rec(p, d-1)
		}
	}
	rec("", k)
	return out
}
