package sim

import (
	"bytes"
	"encoding/json"
	"fmt"
	"os"
	osexec "os/exec"
	"path/filepath"
	"sort"
	"strings"
	"sync"
	"time"
)

// deviants (C20): the fstest conformance suite must accept the reference file systems and reject
// every catalogue entry = mem.FS behind the fault-injecting wrapper in silent mode, one deviation
// each. The catalogue is enumerated, not searched (level fault_enumeration).

type devRun struct {
	id       string
	procs    int
	parallel int
	rep      int
	exit     int
	failed   []string // failing test names
	timedOut bool
	// scoped deviants: file systems made inside the scope, and how often the deviation took effect
	activations, fired int
}

func runDeviant(bin, id string, parallel, procs int, tz ...string) devRun {
	cmd := osexec.Command(bin, "-test.run", "^TestConformance$", "-test.timeout", "60s", "-test.parallel", fmt.Sprint(parallel), "-test.count", "1")
	cmd.Env = append(os.Environ(), "VERIF_DEVIANT="+id, fmt.Sprintf("GOMAXPROCS=%d", procs))
	if len(tz) > 0 && tz[0] != "" {
		cmd.Env = append(cmd.Env, "TZ="+tz[0])
	}
	out, err := cmd.CombinedOutput()
	r := devRun{id: id, parallel: parallel, procs: procs}
	if err != nil {
		r.exit = 1
		if ee, ok := err.(*osexec.ExitError); ok {
			r.exit = ee.ExitCode()
		}
	}
	for _, l := range strings.Split(string(out), "\n") {
		l = strings.TrimSpace(l)
		if strings.HasPrefix(l, "--- FAIL: ") {
			name := strings.Fields(strings.TrimPrefix(l, "--- FAIL: "))[0]
			r.failed = append(r.failed, name)
		}
		if strings.Contains(l, "test timed out") {
			r.timedOut = true
		}
		if strings.HasPrefix(l, "SCOPE-ACTIVATIONS ") {
			fmt.Sscan(strings.TrimPrefix(l, "SCOPE-ACTIVATIONS "), &r.activations)
		}
		if strings.HasPrefix(l, "DEVIATION-FIRED ") {
			fmt.Sscan(strings.TrimPrefix(l, "DEVIATION-FIRED "), &r.fired)
		}
	}
	sort.Strings(r.failed)
	return r
}

func c20Catalogue(bin string) ([]string, error) {
	cmd := osexec.Command(bin, "-test.run", "^TestCatalogue$")
	cmd.Env = append(os.Environ(), "VERIF_DEVIANT_LIST=1")
	out, err := cmd.Output()
	if err != nil {
		return nil, err
	}
	var ids []string
	for _, l := range strings.Split(string(out), "\n") {
		if strings.HasPrefix(l, "DEVIANT ") {
			ids = append(ids, strings.TrimPrefix(l, "DEVIANT "))
		}
	}
	return ids, nil
}

func c20Custom(d *driver) int {
	bin := filepath.Join(os.Getenv("VERIF_BUILD"), "deviants.test")
	if _, err := os.Stat(bin); err != nil {
		fatalInfra("deviants test binary missing: %v", err)
	}
	all, err := c20Catalogue(bin)
	if err != nil || len(all) == 0 {
		fatalInfra("cannot list the deviant catalogue: %v", err)
	}
	known, err := loadKnown(filepath.Join(d.verifDir, "known_findings.json"))
	if err != nil {
		fatalInfra("known_findings.json: %v", err)
	}
	// the whole catalogue in both tiers (a suite run takes ~30 ms); the thorough tier repeats more and
	// adds machine sizes
	ids := all
	procsList, reps := []int{1, 16}, 2
	if d.tier == "thorough" {
		procsList, reps = []int{1, 2, 4, 16}, 5
	}
	refs := []string{"ref:mem", "ref:os", "ref:wrapper", "ref:prefixed-paths@prefix", "ref:utc-modtime"}
	type job struct {
		id       string
		parallel int
		procs    int
		rep      int
		tz       string
	}
	var jobs []job
	for _, id := range append(append([]string{}, refs...), ids...) {
		for _, p := range []int{1, 16} {
			pl, rp := procsList, reps
			if strings.Contains(id, "#") {
				// scenario-scoped deviants (several per scenario of the suite): fewer configurations each
				pl, rp = []int{16}, 1
				if d.tier == "thorough" {
					pl, rp = []int{1, 16}, 2
				}
			}
			for _, procs := range pl {
				for rep := 0; rep < rp; rep++ {
					jobs = append(jobs, job{id, p, procs, rep, ""})
				}
				if strings.HasPrefix(id, "ref:") {
					// the references also under two time zones of the process running the suite: the verdict depends on
					// the file system alone
					for _, tz := range []string{"UTC", "Asia/Kolkata"} {
						jobs = append(jobs, job{id, p, procs, 0, tz})
					}
				}
			}
		}
	}
	results := make([]devRun, len(jobs))
	var wg sync.WaitGroup
	sem := make(chan struct{}, d.nworkers)
	for i, j := range jobs {
		wg.Add(1)
		go func(i int, j job) {
			defer wg.Done()
			sem <- struct{}{}
			defer func() { <-sem }()
			results[i] = runDeviant(bin, j.id, j.parallel, j.procs, j.tz)
			results[i].rep = j.rep
		}(i, j)
	}
	wg.Wait()
	byID := map[string][]devRun{}
	for _, r := range results {
		byID[r.id] = append(byID[r.id], r)
	}
	var lines []string
	var samples []interface{}
	rejected, distinct := 0, map[string]bool{}
	scopedRun, scopedSkipped := 0, 0
	printed := map[string]bool{}
	report := func(sig, detail, id string) {
		for _, k := range known {
			if k.Property == "C20" && k.Status == "open" && sigMatch(k.Signature, sig) {
				if !printed[k.ID] {
					printed[k.ID] = true
					fmt.Printf("KNOWN-FINDING: property=C20 %s [%s]\n", k.What, k.ID)
				}
				return
			}
		}
		tr := &TrialResult{Violation: &Violation{Property: "C20", Engine: "deviants", Kind: "conformance", Signature: sig, Detail: detail}, Trace: []string{"deviant " + id}}
		rf := &replayFile{Property: "C20", Engine: "deviants", Tier: d.tier, BaseSeed: d.seed, Probe: id, Violation: tr.Violation, Trace: tr.Trace}
		dir := filepath.Join(d.verifDir, "replays")
		if repo := os.Getenv("VERIF_REPO"); repo != "" && repo != "/repo" {
			dir = filepath.Join(os.Getenv("VERIF_BUILD"), "replays")
		}
		os.MkdirAll(dir, 0755)
		path := filepath.Join(dir, "C20-"+strings.NewReplacer(":", "_", ".", "_").Replace(id)+".json")
		b, _ := json.MarshalIndent(rf, "", " ")
		os.WriteFile(path, b, 0644)
		fmt.Printf("violation %s\n%s\n", sig, detail)
		lines = append(lines, fmt.Sprintf("VIOLATION property=C20 replay=%s", path))
	}
	for _, id := range append(append([]string{}, refs...), ids...) {
		rs := byID[id]
		verdicts := map[string]bool{}
		anyFail, allFail := false, true
		for _, r := range rs {
			v := "pass"
			if r.exit != 0 {
				v = "fail"
				anyFail = true
			} else {
				allFail = false
			}
			verdicts[v] = true
		}
		distinct[id] = true
		if strings.Contains(id, "#") {
			// a scoped deviant has something to say only where its scenario still exists under that name and still
			// exercises the deviated behaviour: otherwise the wrapper was the reference all along
			exercised := true
			for _, r := range rs {
				if r.activations == 0 || r.fired == 0 {
					exercised = false
				}
			}
			if !exercised {
				scopedSkipped++
				continue
			}
			scopedRun++
		}
		if len(samples) < 4 {
			samples = append(samples, map[string]interface{}{"deviant": id, "failing_tests_parallel1": rs[0].failed, "exit": rs[0].exit})
		}
		switch {
		case len(verdicts) > 1:
			report("C20:verdict-unstable:"+id, fmt.Sprintf("the suite's verdict on %q differs between runs (-parallel 1/16, GOMAXPROCS 1..16, repetitions): %v", id, rs), id)
		case strings.HasPrefix(id, "ref:") && anyFail:
			report("C20:reference-fails:"+id, fmt.Sprintf("the suite reports failures for the unmodified reference %q: %v", id, rs[0].failed), id)
		case !strings.HasPrefix(id, "ref:") && !allFail:
			report("C20:not-rejected:"+id, fmt.Sprintf("the suite reports no failure for the deviant %q (mem.FS with this single deviation)", id), id)
		case !strings.HasPrefix(id, "ref:"):
			rejected++
		}
	}
	// a known finding whose deviants are rejected now: note it
	for _, k := range known {
		if k.Property == "C20" && k.Status == "fixed" {
			// regression is covered by the enumeration itself
			continue
		}
	}
	cov := map[string]interface{}{
		"evaluations":         len(jobs),
		"distinct_nontrivial": len(ids),
		"rule":                "the fixed catalogue of single-deviation wrappers around mem.FS (one per operation x deviation kind, plus the scenario-scoped ones '<id>#<scenario>' whose deviation applies inside one scenario of the suite only; those run at -test.parallel 1 and 16 with GOMAXPROCS 16, thorough also 1, and are skipped when the scenario is not found or the deviation never takes effect) is enumerated; every entry and the references (mem.FS, os.FS, the wrapper without deviation) run the full fstest.FS and fstest.File suites at -test.parallel 1 and 16 x GOMAXPROCS 1 and 16 (thorough: 1, 2, 4, 16), 2 (thorough: 5) times each, and all runs of one entry must agree; a deviant is a non-trivial case (it differs from the reference in one observable behaviour); distinct = catalogue ids run",
		"samples":             samples,
		"catalogue_size":      len(all),
		"deviants_run":        len(ids),
		"deviants_rejected":   rejected,
		"scoped_deviants":     map[string]int{"exercised and judged": scopedRun, "skipped: scenario not found under that name or deviation never took effect": scopedSkipped},
		"references":          refs,
		"suite_runs":          len(jobs),
		"exhaustive":          d.tier == "thorough",
		"components":          map[string][]string{"real": {"fstest suite", "internal/assert", "mem.FS", "os.FS"}, "stub": {"deviant wrapper (catalogue)"}},
		"faults_fired":        map[string]int{"silent deviations enumerated": len(ids)},
		"simulated_time":      "not applicable: enumeration of silent faults against the conformance suite, no schedule",
	}
	ev := map[string]interface{}{
		"property_id": "C20", "tier": d.tier, "seed": int64(d.seed), "level": "fault_enumeration", "coverage": cov,
		"assumptions": []string{"the catalogue is a sample of single deviations, not all conceivable ones", "built with the repository's default toolchain because the suite's expectations about os error strings are toolchain specific"},
		"wall_s":      time.Since(d.start).Seconds(), "violations": len(lines),
	}
	b, _ := json.MarshalIndent(ev, "", " ")
	dir := filepath.Join(d.verifDir, "evidence")
	if repo := os.Getenv("VERIF_REPO"); repo != "" && repo != "/repo" {
		dir = filepath.Join(os.Getenv("VERIF_BUILD"), "evidence")
	}
	os.MkdirAll(dir, 0755)
	os.WriteFile(filepath.Join(dir, "C20.json"), b, 0644)
	for _, l := range lines {
		fmt.Println(l)
	}
	if len(lines) > 0 {
		return 1
	}
	fmt.Printf("OK property=C20 tier=%s deviants=%d rejected=%d references=5 suite_runs=%d wall=%.1fs\n", d.tier, len(ids), rejected, len(jobs), time.Since(d.start).Seconds())
	return 0
}

func sortStrings(l []string) []string { sort.Strings(l); return l }

func c20Replay(d *driver, rf *replayFile, path string) int {
	bin := filepath.Join(os.Getenv("VERIF_BUILD"), "deviants.test")
	procs := 16
	if strings.HasPrefix(rf.Violation.Signature, "C20:verdict-unstable:") || rf.Probe == "concurrent:busy" {
		procs = 1
	}
	r := runDeviant(bin, rf.Probe, 1, procs)
	fmt.Printf("deviant %s: exit=%d failing tests=%v\n", rf.Probe, r.exit, r.failed)
	bad := (strings.HasPrefix(rf.Probe, "ref:") && r.exit != 0) || (!strings.HasPrefix(rf.Probe, "ref:") && r.exit == 0)
	if bad {
		fmt.Printf("VIOLATION property=C20 replay=%s\n", path)
		return 1
	}
	return 0
}

var _ = bytes.Equal

func init() {
	Register(&Engine{Prop: "C20", Name: "deviants", Level: "fault_enumeration", Custom: c20Custom, AuxReplay: c20Replay,
		Trials: map[string]int{"quick": 1, "thorough": 1}})
}
