package sim

import (
	"context"
	"errors"
	"fmt"
	"sort"
	"strings"
	"time"

	"github.com/hack-pad/hackpadfs"
	"github.com/hack-pad/hackpadfs/keyvalue"
	"github.com/hack-pad/hackpadfs/keyvalue/blob"
)

// errInjected is the error every injected store fault returns.
var errInjected = errors.New("verif: injected store fault")

// yield parks the calling task at a gate if a scheduler is installed (no-op otherwise).
func yield(label string) {
	if s := cur.sched; s != nil {
		s.Yield(label)
	}
}

// faultPlan decides, per seam call, whether a fault fires. One plan per trial.
type faultPlan struct {
	t       *T
	at      int    // call index at which the fault fires (-1: never)
	kind    string // which call kinds are eligible ("" = any)
	calls   int
	fired   int
	firedAt string
	armed   bool
	log     []string
	getErr  error // what a failing Get answers instead of the harness's own error (e.g. ErrNotExist: the record "vanished")
}

func (p *faultPlan) hit(kind, detail string) bool {
	if p == nil {
		return false
	}
	if !p.armed || p.fired > 0 || p.at < 0 {
		return false
	}
	if p.kind != "" && p.kind != kind {
		return false
	}
	// the at-th eligible call fails (eligible = of the plan's kind, or any call if the plan names none)
	i := p.calls
	p.calls++
	if i == p.at {
		p.fired++
		p.firedAt = kind + " " + detail
		p.t.Stat("fault:" + kind)
		p.t.Logf("FAULT fires at store call %d: %s %s", i, kind, detail)
		return true
	}
	return false
}

// ---- SimStore: a map-backed plain keyvalue.Store (serial-fallback path) -----------------------------------

type simRec struct {
	mode    hackpadfs.FileMode
	modTime time.Time
	data    blob.Blob // nil for directories
}

type SimStore struct {
	t         *T
	recs      map[string]*simRec
	copying   bool // copying flavour: Get hands out records whose getters load fresh copies
	plan      *faultPlan
	permute   bool // permute ReadDirNames results from the choice stream
	ambig     bool // a failing Set is applied before the error is reported
	ignoreCtx bool // the store does not look at the context it is handed (legal for a plain Store)
	gets      int
	sets      int
}

func newSimStore(t *T, copying bool) *SimStore {
	return &SimStore{t: t, recs: map[string]*simRec{}, copying: copying}
}

func (s *SimStore) dirNames(p string) []string {
	prefix := p + "/"
	if p == "." {
		prefix = ""
	}
	var names []string
	for k := range s.recs {
		if k == "." || !strings.HasPrefix(k, prefix) {
			continue
		}
		rest := k[len(prefix):]
		if rest != "" && !strings.Contains(rest, "/") {
			names = append(names, rest)
		}
	}
	sort.Strings(names)
	if s.permute && len(names) > 1 {
		perm := s.t.C.Perm(len(names))
		out := make([]string, len(names))
		for i, j := range perm {
			out[i] = names[j]
		}
		names = out
	}
	return names
}

// sharedRecord is what the sharing flavour hands out: Data() is the stored blob itself.
type sharedRecord struct {
	s    *SimStore
	path string
	rec  *simRec
}

func (r *sharedRecord) Data() (blob.Blob, error) {
	yield("rec.Data " + r.path)
	if r.s.plan.hit("Data", r.path) {
		return nil, errInjected
	}
	if r.rec.mode.IsDir() {
		return nil, hackpadfs.ErrIsDir
	}
	return r.rec.data, nil
}

func (r *sharedRecord) ReadDirNames() ([]string, error) {
	yield("rec.ReadDirNames " + r.path)
	if r.s.plan.hit("ReadDirNames", r.path) {
		return nil, errInjected
	}
	if !r.rec.mode.IsDir() {
		return nil, hackpadfs.ErrNotDir
	}
	return r.s.dirNames(r.path), nil
}

func (r *sharedRecord) Size() int64 {
	if r.rec.data == nil {
		return 0
	}
	return int64(r.rec.data.Len())
}
func (r *sharedRecord) Mode() hackpadfs.FileMode { return r.rec.mode }
func (r *sharedRecord) ModTime() time.Time       { return r.rec.modTime }
func (r *sharedRecord) Sys() interface{}         { return nil }

func (s *SimStore) Get(ctx context.Context, p string) (keyvalue.FileRecord, error) {
	yield("store.Get " + p)
	s.gets++
	if s.plan.hit("Get", p) {
		if s.plan.getErr != nil {
			return nil, s.plan.getErr
		}
		return nil, errInjected
	}
	if err := ctx.Err(); err != nil && !s.ignoreCtx {
		return nil, err
	}
	rec, ok := s.recs[p]
	if !ok {
		return nil, hackpadfs.ErrNotExist
	}
	if !s.copying {
		return &sharedRecord{s: s, path: p, rec: rec}, nil
	}
	var size int64
	if rec.data != nil {
		size = int64(rec.data.Len())
	}
	var getData func() (blob.Blob, error)
	var getNames func() ([]string, error)
	if rec.mode.IsDir() {
		getNames = func() ([]string, error) {
			yield("rec.ReadDirNames " + p)
			if s.plan.hit("ReadDirNames", p) {
				return nil, errInjected
			}
			return s.dirNames(p), nil
		}
	} else {
		getData = func() (blob.Blob, error) {
			yield("rec.Data " + p)
			if s.plan.hit("Data", p) {
				return nil, errInjected
			}
			cur, ok := s.recs[p]
			if !ok || cur.data == nil {
				return nil, hackpadfs.ErrNotExist
			}
			return blob.NewBytes(append([]byte(nil), cur.data.Bytes()...)), nil
		}
	}
	return keyvalue.NewBaseFileRecord(size, rec.modTime, rec.mode, nil, getData, getNames), nil
}

func (s *SimStore) Set(ctx context.Context, p string, src keyvalue.FileRecord) error {
	yield("store.Set " + p)
	s.sets++
	fault := s.plan.hit("Set", p)
	if fault && !s.ambig {
		return errInjected
	}
	if err := ctx.Err(); err != nil && !s.ignoreCtx {
		return err
	}
	if src == nil {
		delete(s.recs, p)
	} else {
		rec := &simRec{mode: src.Mode(), modTime: src.ModTime()}
		if !rec.mode.IsDir() {
			data, err := src.Data()
			if err != nil {
				return err
			}
			if s.copying {
				data = blob.NewBytes(append([]byte(nil), data.Bytes()...))
			}
			rec.data = data
		}
		s.recs[p] = rec
	}
	if fault {
		return errInjected
	}
	return nil
}

// keys returns the sorted key set (for store-level invariants).
func (s *SimStore) keys() []string {
	var k []string
	for p := range s.recs {
		k = append(k, p)
	}
	sort.Strings(k)
	return k
}

func (s *SimStore) describe() string {
	var l []string
	for _, k := range s.keys() {
		r := s.recs[k]
		if r.mode.IsDir() {
			l = append(l, fmt.Sprintf("%s d %04o", k, r.mode.Perm()))
		} else {
			l = append(l, fmt.Sprintf("%s f %04o size=%d", k, r.mode.Perm(), r.data.Len()))
		}
	}
	return strings.Join(l, "\n")
}
