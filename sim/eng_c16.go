package sim

import (
	"archive/tar"
	"bytes"
	"context"
	"errors"
	"fmt"
	"io"
	"math"
	"path"
	"sort"
	"strings"

	"github.com/hack-pad/hackpadfs"
	"github.com/hack-pad/hackpadfs/cache"
	"github.com/hack-pad/hackpadfs/mem"
	"github.com/hack-pad/hackpadfs/mount"
	hos "github.com/hack-pad/hackpadfs/os"
	htar "github.com/hack-pad/hackpadfs/tar"
)

type c16Child struct {
	name  string
	isDir bool
	size  int
}

const (
	c16Mem = iota
	c16KVShared
	c16KVCopy
	c16Mount
	c16Sub
	c16Cache
	c16Tar
	c16OS
	c16Count
)

// c16LastStore hands the simulated store of the stack built last to the trial (one trial at a time per worker).
var c16LastStore *SimStore

// c16LastCore: the same for the cache stack's source wrapper, with the call kind its directory reads arrive as.
var c16LastCore *capCore
var c16LastCoreKind string

func c16StackName(k int) string {
	return []string{"mem", "keyvalue+SimStore(sharing)", "keyvalue+SimStore(copying)", "mount", "Sub(mem)", "cache", "tar", "os.FS"}[k]
}

func c16Populate(t *T, fs hackpadfs.FS, dir string, children []c16Child) {
	if dir != "." {
		must(t, hackpadfs.MkdirAll(fs, dir, 0755))
		// siblings whose names merely start with the directory's name: none of them, nor anything below
		// them, is a child of dir
		must(t, hackpadfs.MkdirAll(fs, dir+".bak/inner", 0755))
		must(t, hackpadfs.WriteFullFile(fs, dir+".bak/c001", []byte("x"), 0644))
		must(t, hackpadfs.WriteFullFile(fs, dir+"x", []byte("x"), 0644))
		must(t, hackpadfs.Mkdir(fs, dir+"-2", 0755))
	}
	for _, ch := range children {
		p := path.Join(dir, ch.name)
		if ch.isDir {
			must(t, hackpadfs.Mkdir(fs, p, 0750))
		} else {
			must(t, hackpadfs.WriteFullFile(fs, p, uniqueData(1, ch.size), 0640))
		}
	}
}

// c16Build returns the FS, the directory to list, the names of children that are mount points, and a cleanup.
func c16Build(t *T, k int, children []c16Child) (hackpadfs.FS, string, map[string]bool, func()) {
	noop := func() {}
	switch k {
	case c16Mem, c16KVShared, c16KVCopy:
		fs, st := newSUT(t, k)
		c16Populate(t, fs, "d", children)
		c16LastStore = st
		return fs, "d", nil, noop
	case c16Mount:
		// the listed directory is the root of the FS mounted at m; its child "n" is itself a mount point
		root, _ := mem.NewFS()
		must(t, root.Mkdir("m", 0755))
		m1, _ := mem.NewFS()
		c16Populate(t, m1, ".", children)
		must(t, m1.Mkdir("n", 0755))
		m2, _ := mem.NewFS()
		must(t, hackpadfs.WriteFullFile(m2, "inner", []byte("x"), 0644))
		mfs, _ := mount.NewFS(root)
		must(t, mfs.AddMount("m", m1))
		must(t, mfs.AddMount("m/n", m2))
		return mfs, "m", map[string]bool{"n": true}, noop
	case c16Sub:
		base, _ := mem.NewFS()
		must(t, base.Mkdir("base", 0755))
		sub, err := hackpadfs.Sub(base, "base")
		must(t, err)
		c16Populate(t, sub, "d", children)
		return sub, "d", nil, noop
	case c16Cache:
		srcMem, _ := mem.NewFS()
		c16Populate(t, srcMem, "d", children)
		// the source sits behind the fault-injecting wrapper (with or without a by-name ReadDir of its own);
		// a failing directory read of it delivers half of the entries together with the error, like os.ReadDir
		core := &capCore{t: t, inner: srcMem, faultAt: -1, label: "src.", partialDir: true}
		c16LastCore, c16LastCoreKind = core, "file.ReadDir"
		var src hackpadfs.FS = newCapFS(core, nil)
		if t.C.Chance(1, 2) {
			src = newCapFS(core, []string{"ReadDir", "Stat"})
			c16LastCoreKind = "ReadDir"
		}
		store, _ := mem.NewFS()
		c, err := cache.NewReadOnlyFS(src, store, cache.ReadOnlyOptions{})
		must(t, err)
		return c, "d", nil, noop
	case c16Tar:
		var buf bytes.Buffer
		w := tar.NewWriter(&buf)
		must(t, w.WriteHeader(&tar.Header{Name: "d/", Typeflag: tar.TypeDir, Mode: 0755}))
		for _, ch := range children {
			if ch.isDir {
				must(t, w.WriteHeader(&tar.Header{Name: "d/" + ch.name + "/", Typeflag: tar.TypeDir, Mode: 0750}))
			} else {
				must(t, w.WriteHeader(&tar.Header{Name: "d/" + ch.name, Typeflag: tar.TypeReg, Mode: 0640, Size: int64(ch.size)}))
				_, err := w.Write(uniqueData(1, ch.size))
				must(t, err)
			}
		}
		must(t, w.Close())
		r, err := htar.NewReaderFS(context.Background(), bytes.NewReader(buf.Bytes()), htar.ReaderFSOptions{})
		must(t, err)
		<-r.Done()
		must(t, r.UnarchiveErr())
		return r, "d", nil, noop
	default:
		dir, cleanup := newScratch(t)
		fs, err := hos.NewFS().Sub(strings.TrimPrefix(dir, "/"))
		must(t, err)
		c16Populate(t, fs, "d", children)
		return fs, "d", nil, cleanup
	}
}

func runC16(t *T) {
	c := t.C
	defer beginTrial(t, true)()
	k := c.Draw(c16Count)
	counts := []int{3, 0, 1, 2, 5, 8, 17, 40, 70, 130} // beyond any internal batch size
	n := counts[c.Draw(len(counts))]
	if c.Chance(1, 40) {
		n = 1500 // beyond a batch size of a thousand or so
	}
	if k == c16OS && c.Chance(1, 6) {
		n = 400 // beyond the kernel's getdents batch
	}
	children := make([]c16Child, n)
	for i := range children {
		children[i] = c16Child{name: fmt.Sprintf("c%04d", (i*7+3)%10007), isDir: c.Chance(1, 3), size: c.Draw(4) * 3}
	}
	fs, dir, mounts, cleanup := c16Build(t, k, children)
	defer cleanup()
	// fault mode (stacks over the simulated store): a store call made by a page read fails once; the failed
	// page may deliver nothing, but the pages after it still have to deliver every child exactly once
	var faultStore *SimStore
	var faultCore *capCore
	if (k == c16KVShared || k == c16KVCopy) && c.Chance(1, 3) {
		faultStore = c16LastStore
	}
	if k == c16Cache && c.Chance(1, 2) {
		faultCore = c16LastCore
	}
	want := map[string]c16Child{}
	for _, ch := range children {
		want[ch.name] = ch
	}
	for m := range mounts {
		want[m] = c16Child{name: m, isDir: true}
	}
	t.Logf("stack=%s dir=%s children=%d", c16StackName(k), dir, len(want))
	fam := "C16:" + c16StackName(k)

	// by-name listing
	ents, err := hackpadfs.ReadDir(fs, dir)
	if err != nil {
		t.Fail("listing", fam+":readdir-fails", fmt.Sprintf("ReadDir(%q) with %d children failed: %v", dir, len(want), err))
	}
	c16CheckEntries(t, fs, dir, ents, want, want, mounts, fam+":byname", true)
	c16Scribble(ents)
	if c.Chance(1, 3) {
		// a result belongs to the caller (who may sort, filter or overwrite it in place): the next listing is unaffected
		ents2, err2 := hackpadfs.ReadDir(fs, dir)
		if err2 != nil {
			t.Fail("listing", fam+":readdir-fails", fmt.Sprintf("second ReadDir(%q) failed: %v", dir, err2))
		}
		c16CheckEntries(t, fs, dir, ents2, want, want, mounts, fam+":byname-again", true)
		c16Scribble(ents2)
	}

	// paged reads of a fresh handle
	rounds := 1 + c.Draw(2)
	for r := 0; r < rounds; r++ {
		f, err := fs.Open(dir)
		if err != nil {
			t.Fail("open", fam+":open-dir-fails", fmt.Sprintf("Open(%q) failed: %v", dir, err))
		}
		var all []hackpadfs.DirEntry
		fresh := true
		total := len(want)
		var sizes []int
		faultsLeft := 0
		faulted, failedLast := false, false
		if faultStore != nil || faultCore != nil {
			faultsLeft = 1 + c.Draw(2)
		}
		budget := total + 6 + faultsLeft
		for call := 0; call < budget; call++ {
			var size int
			switch c.Weighted(3, 2, 1, 1, 1, 1, 1) {
			case 0:
				size = 1
			case 1:
				size = 2
			case 2:
				size = total - 1
			case 3:
				size = total
			case 4:
				size = total + 1
			case 5:
				size = []int{1 << 20, math.MaxInt32, math.MaxInt}[c.Draw(3)]
			default:
				size = -c.Draw(2) // 0 or -1
			}
			if size <= 0 && !fresh {
				size = 3
			}
			if size < 1 && size > 0 {
				size = 1
			}
			if size == 0 && total-1 == 0 && !fresh {
				size = 1
			}
			sizes = append(sizes, size)
			var plan *faultPlan
			coreArmed := false
			if faultsLeft > 0 && size > 0 && c.Chance(1, 3) {
				faultsLeft--
				if faultStore != nil {
					plan = &faultPlan{t: t, at: c.Draw(3), kind: []string{"Get", "", "ReadDirNames"}[c.Weighted(3, 1, 1)], armed: true}
					if plan.kind == "Get" && c.Chance(1, 3) {
						// the store says a child it has just listed does not exist: still a failure of the page, not an
						// entry to leave out silently
						plan.getErr = hackpadfs.ErrNotExist
						plan.at = 1 + c.Draw(3) // (not the look-up of the directory itself)
					}
					faultStore.plan = plan
				} else {
					faultCore.armNext(c16LastCoreKind)
					coreArmed = true
				}
			}
			page, err := hackpadfs.ReadDirFile(f, size)
			if faultStore != nil {
				faultStore.plan = nil
			}
			if coreArmed {
				if faultCore.fired != "" {
					t.Stat("c16:page-read-hit-by-fault")
					faulted = true
				}
				faultCore.disarm()
			}
			t.Logf("round %d ReadDir(%d) -> %d entries, %s", r, size, len(page), errClass(err))
			remainingBefore := total - len(all)
			all = append(all, page...)
			c16Scribble(page)
			sig := fam + ":page"
			if plan != nil && plan.fired > 0 {
				t.Stat("c16:page-read-hit-by-fault")
				faulted = true
			}
			if faulted {
				sig = fam + ":page-after-store-fault"
				if err != nil && err != io.EOF && (errors.Is(err, errInjected) || errors.Is(err, errInjectedFS) || (plan != nil && plan.getErr != nil && errors.Is(err, plan.getErr))) {
					// the page failed with the store's error (a handle may go on failing with it: records cache
					// a failed load): whatever it delivered counts, the listing goes on
					failedLast = true
					if len(page) > 0 {
						fresh = false
					}
					continue
				}
			}
			failedLast = false
			switch {
			case size <= 0:
				if err != nil || len(page) != total {
					f.Close()
					t.Fail("paging", sig+":nonpositive-count", fmt.Sprintf("ReadDir(%d) on a fresh handle of a directory with %d children returned %d entries, err=%v (want all entries, nil)", size, total, len(page), err))
				}
			case err == nil && len(page) == 0:
				f.Close()
				t.Fail("paging", sig+":empty-page-nil-error", fmt.Sprintf("ReadDir(%d) returned an empty page with a nil error (page sizes so far %v, %d of %d entries delivered)", size, sizes, len(all), total))
			case err == io.EOF && remainingBefore-len(page) > 0:
				f.Close()
				t.Fail("paging", sig+":early-eof", fmt.Sprintf("ReadDir(%d) returned io.EOF although %d entries remain (page sizes %v)", size, remainingBefore-len(page), sizes))
			case err != nil && err != io.EOF:
				f.Close()
				t.Fail("paging", sig+":error", fmt.Sprintf("ReadDir(%d) failed: %v (page sizes %v)", size, err, sizes))
			case len(page) > size:
				f.Close()
				t.Fail("paging", sig+":page-too-long", fmt.Sprintf("ReadDir(%d) returned %d entries", size, len(page)))
			case err == nil && remainingBefore == 0:
				f.Close()
				t.Fail("paging", sig+":missing-eof", fmt.Sprintf("ReadDir(%d) returned %d entries and a nil error although everything had been delivered before (page sizes %v)", size, len(page), sizes))
			}
			fresh = false
			if err == io.EOF {
				break
			}
			if len(all) > total+2 {
				break
			}
		}
		if c.Chance(1, 6) {
			// a handle that lets itself be positioned beyond the end of the listing: what the position means for a
			// directory is the implementation's affair, but the next page is made of children of this directory, at most
			// all of them, and the call returns
			pos := int64([]int{total + 5, 1 << 40, total, 1}[c.Draw(4)])
			if _, serr := hackpadfs.SeekFile(f, pos, io.SeekStart); serr == nil {
				size := []int{1, -1, 3}[c.Draw(3)]
				page, err := hackpadfs.ReadDirFile(f, size)
				t.Logf("Seek(%d) then ReadDir(%d) -> %d entries, %s", pos, size, len(page), errClass(err))
				if len(page) > total {
					t.Fail("paging", fam+":after-seek:too-many", fmt.Sprintf("after Seek(%d) ReadDir(%d) returned %d entries; the directory has %d children", pos, size, len(page), total))
				}
				for _, e := range page {
					if _, ok := want[e.Name()]; !ok {
						t.Fail("paging", fam+":after-seek:stranger", fmt.Sprintf("after Seek(%d) ReadDir(%d) returned %q, which is not a child of %q", pos, size, e.Name(), dir))
					}
				}
				t.Stat("c16:readdir-after-seek")
			}
		}
		f.Close()
		pagesSig := fam + ":pages"
		wantPages := want
		if faulted {
			pagesSig = fam + ":pages-with-store-fault"
			if failedLast {
				// the listing never got to its end: what was delivered must still be right, duplicate-free
				wantPages = nil
			}
		}
		c16CheckEntries(t, fs, dir, all, want, wantPages, mounts, pagesSig, false)
	}

	// listing a non-directory
	for _, ch := range children {
		if !ch.isDir {
			_, err := hackpadfs.ReadDir(fs, path.Join(dir, ch.name))
			if !errors.Is(err, hackpadfs.ErrNotDir) {
				t.Fail("notdir", fam+":list-file:"+errClass(err), fmt.Sprintf("ReadDir of the regular file %q: %v (want an error matching ErrNotDir)", path.Join(dir, ch.name), err))
			}
			break
		}
	}
	if len(want) > 0 {
		t.NonTrivial()
	}
}

// c16Scribble overwrites a result slice the way a caller may (the copies the harness keeps are made before).
func c16Scribble(ents []hackpadfs.DirEntry) {
	for i := range ents {
		ents[i] = ents[len(ents)-1]
	}
}

// c16CheckEntries: every child exactly once, (sorted), name/kind/info agreeing with Stat.
// complete (nil: not required) names the children that all have to be there.
func c16CheckEntries(t *T, fs hackpadfs.FS, dir string, ents []hackpadfs.DirEntry, want, complete map[string]c16Child, mounts map[string]bool, sig string, mustSort bool) {
	seen := map[string]int{}
	var names []string
	for _, e := range ents {
		seen[e.Name()]++
		names = append(names, e.Name())
	}
	for name, n := range seen {
		if n > 1 {
			t.Fail("duplicate", sig+":duplicate", fmt.Sprintf("%q is returned %d times (%v)", name, n, names))
		}
		if _, ok := want[name]; !ok {
			t.Fail("extra", sig+":unexpected-entry", fmt.Sprintf("%q is listed but was never created (%v)", name, names))
		}
	}
	for name := range complete {
		if seen[name] == 0 {
			t.Fail("missing", sig+":missing-entry", fmt.Sprintf("child %q is missing from the listing of %q (%d of %d returned: %v)", name, dir, len(names), len(want), names))
		}
	}
	if mustSort && !sort.StringsAreSorted(names) {
		t.Fail("order", sig+":not-sorted", fmt.Sprintf("listing is not sorted by name: %v", names))
	}
	for _, e := range ents {
		w := want[e.Name()]
		if e.IsDir() != w.isDir || e.Type().IsDir() != w.isDir {
			t.Fail("kind", sig+":kind", fmt.Sprintf("entry %q: IsDir=%v Type=%v, created as dir=%v", e.Name(), e.IsDir(), e.Type(), w.isDir))
		}
		st, err := hackpadfs.Stat(fs, path.Join(dir, e.Name()))
		if err != nil {
			t.Fail("stat", sig+":child-not-statable", fmt.Sprintf("listed child %q cannot be Stat'ed: %v", e.Name(), err))
		}
		if st.IsDir() != e.IsDir() {
			t.Fail("kind", sig+":kind-vs-stat", fmt.Sprintf("entry %q: IsDir=%v but Stat says %v", e.Name(), e.IsDir(), st.IsDir()))
		}
		if mounts[e.Name()] {
			continue
		}
		info, err := e.Info()
		if err != nil || info == nil {
			t.Fail("info", sig+":info-fails", fmt.Sprintf("entry %q: Info() = %v, %v", e.Name(), info, err))
		}
		if info.Name() != st.Name() || info.IsDir() != st.IsDir() || info.Mode() != st.Mode() || (!st.IsDir() && info.Size() != st.Size()) || !info.ModTime().Equal(st.ModTime()) {
			t.Fail("info", sig+":info-vs-stat", fmt.Sprintf("entry %q: Info() = {%s mode=%v mtime=%v}, Stat = {%s mode=%v mtime=%v}", e.Name(), infoString(info), info.Mode(), info.ModTime().UnixNano(), infoString(st), st.Mode(), st.ModTime().UnixNano()))
		}
	}
}

// c16Probe: page through a 2-entry directory on stack k with the given sizes.
func c16Probe(k int, sizes ...int) func(t *T) {
	return func(t *T) {
		defer beginTrial(t, false)()
		children := []c16Child{{name: "c001"}, {name: "c002", isDir: true}}
		fs, dir, _, cleanup := c16Build(t, k, children)
		defer cleanup()
		f, err := fs.Open(dir)
		must(t, err)
		defer f.Close()
		got := 0
		fam := "C16:" + c16StackName(k) + ":page"
		for _, size := range sizes {
			page, err := hackpadfs.ReadDirFile(f, size)
			t.Logf("ReadDir(%d) -> %d entries %v", size, len(page), err)
			switch {
			case size > 0 && len(page) > size:
				t.Fail("paging", fam+":page-too-long", fmt.Sprintf("ReadDir(%d) returned %d entries", size, len(page)))
			case size > 0 && err == nil && len(page) == 0:
				t.Fail("paging", fam+":empty-page-nil-error", "empty page with nil error")
			case err == nil && got == 2 && size > 0:
				t.Fail("paging", fam+":missing-eof", "entries returned after the end")
			}
			got += len(page)
		}
	}
}

func init() {
	RegisterProbe("c16-kv-no-eof", c16Probe(c16Mem, 2, 1))
	RegisterProbe("c16-cache-page-too-long", c16Probe(c16Cache, 3, 3))
	RegisterProbe("c16-kv-huge-page", c16Probe(c16Mem, 1, math.MaxInt))
	Register(&Engine{
		Prop: "C16", Name: "fsdiff/listing", Run: runC16,
		Trials: map[string]int{"quick": 30000, "thorough": 300000},
		Rule:   "a directory with 0..40 children (400 on os.FS, beyond the getdents batch; files and directories mixed) is built on a drawn stack (mem with permuted listing order, keyvalue over both SimStore flavours, mount with a child that is a mount point, Sub, cache, tar, os.FS); the by-name listing is judged for completeness, duplicates, order and agreement of name/kind/Info with Stat; 1-2 fresh handles are read with drawn page-size sequences (1, 2, N-1, N, N+1, huge, <=0 on a fresh handle) and judged for multiset equality, empty-page-nil-error, early/missing EOF; listing a regular file must fail with ErrNotDir; non-trivial = directory not empty; distinct = event-log hash One listing in six ends with a Seek of the directory handle beyond the end and one more page: only children, at most all of them, and the call returns.",
		Components: map[string][]string{
			"real": {"keyvalue file.ReadDir", "cache dir.ReadDir", "os file ReadDir", "fs.go ReadDir fallback", "mem store child enumeration", "mount", "Sub", "tar (joined before listing)"},
			"stub": {"SimStore (keyvalue kinds)"},
		},
	})
}
