package sim

import (
	"bytes"
	"errors"
	"fmt"
	"sort"
	"strings"

	"github.com/hack-pad/hackpadfs"
	"github.com/hack-pad/hackpadfs/mem"
	"github.com/hack-pad/hackpadfs/mount"
)

// mountsim (C06): routing spec + twin constituents, cross-mount rename under faults, concurrent AddMount.

var c06Points = []string{"a", "ab", "b", "a/b", "a/b/c", "ab/c", "a.x", "a-b"} // ("." and "-" sort below "/": a.x lies between a and a/b in a sorted table)

var memFullIfs = []string{"OpenFile", "Mkdir", "MkdirAll", "Remove", "Rename", "Stat", "Chmod", "Chtimes"}

// routeSpec is the ten-line reference: the longest mount point that equals the path or is a
// whole-element prefix of it; the remainder of the path addresses the file inside that mount.
func routeSpec(points []string, p string) (point, sub string) {
	best := "."
	for _, m := range points {
		if (p == m || strings.HasPrefix(p, m+"/")) && (best == "." || len(m) > len(best)) {
			best = m
		}
	}
	if best == "." {
		return ".", p
	}
	if p == best {
		return best, "."
	}
	return best, strings.TrimPrefix(p, best+"/")
}

type mountWorld struct {
	t      *T
	mfs    *mount.FS
	points []string                // accepted mount points
	parts  map[string]hackpadfs.FS // mount point ("." = root) -> constituent under the mount FS
	twin   map[string]hackpadfs.FS // same, unmounted twin constituents
	cores  map[string]*capCore     // fault wrappers (fault mode only)
}

func sortedKeys(m map[string]hackpadfs.FS) []string {
	var l []string
	for k := range m {
		l = append(l, k)
	}
	sort.Strings(l)
	return l
}

// buildMountWorld mounts a drawn subset of the candidate points (parents first) and mirrors the
// directories it needs on the twin constituents.
func buildMountWorld(t *T, want []string, wrap bool, ifsFor ...func(point string) []string) *mountWorld {
	w := &mountWorld{t: t, parts: map[string]hackpadfs.FS{}, twin: map[string]hackpadfs.FS{}, cores: map[string]*capCore{}}
	newPart := func(point string) (hackpadfs.FS, hackpadfs.FS) {
		a, _ := mem.NewFS()
		b, _ := mem.NewFS()
		// distinguishable content
		tag := strings.ReplaceAll(point, "/", "_")
		for _, fs := range []hackpadfs.FS{a, b} {
			must(t, hackpadfs.WriteFullFile(fs, "own-"+tag, []byte("content of "+point), 0644))
		}
		var mounted hackpadfs.FS = a
		if wrap {
			core := &capCore{t: t, inner: a, faultAt: -1, label: point + ":", writing: map[string]int{}}
			w.cores[point] = core
			ifs := memFullIfs
			if len(ifsFor) > 0 {
				ifs = ifsFor[0](point)
			}
			mounted = newCapFS(core, ifs)
		}
		return mounted, b
	}
	root, rootTwin := newPart(".")
	w.parts["."], w.twin["."] = root, rootTwin
	mfs, err := mount.NewFS(root)
	must(t, err)
	w.mfs = mfs
	sort.Slice(want, func(i, j int) bool { return len(want[i]) < len(want[j]) })
	for _, p := range want {
		pt, sub := routeSpec(w.points, p)
		// the mount point must exist as a directory in the FS that currently serves it
		must(t, hackpadfs.MkdirAll(w.parts[pt], sub, 0755))
		must(t, hackpadfs.MkdirAll(w.twin[pt], sub, 0755))
		a, b := newPart(p)
		if err := mfs.AddMount(p, a); err != nil {
			t.Fail("addmount", "C06:addmount-refused", fmt.Sprintf("AddMount(%q) on an existing directory failed: %v", p, err))
		}
		if core := w.cores[pt]; core != nil && core.live != 0 {
			t.Fail("addmount", "C06:addmount:handle-left-open", fmt.Sprintf("AddMount(%q) returned with %d handle(s) still open on the file system that holds the mount point; calls: %v", p, core.live, core.calls))
		}
		w.parts[p], w.twin[p] = a, b
		w.points = append(w.points, p)
	}
	return w
}

func (w *mountWorld) snapshotParts(m map[string]hackpadfs.FS, unwrap bool) string {
	var b strings.Builder
	for _, k := range sortedKeys(m) {
		fs := m[k]
		if unwrap {
			if c, ok := w.cores[k]; ok {
				fs = c.inner
			}
		}
		fmt.Fprintf(&b, "== %s ==\n%s\n", k, takeSnapshot(fs, snapOpts{}).Text)
	}
	return b.String()
}

func runC06(t *T) {
	defer beginTrial(t, true)()
	switch t.C.Weighted(5, 3, 3) {
	case 0:
		c06Routing(t)
	case 1:
		c06CrossRename(t)
	default:
		c06ConcurrentAddMount(t)
	}
}

func drawPoints(t *T) []string {
	c := t.C
	n := c.Draw(5)
	perm := c.Perm(len(c06Points))
	var want []string
	for _, i := range perm[:n] {
		want = append(want, c06Points[i])
	}
	return want
}

// c06Routing: every op through the mount FS against the same op applied directly to the constituent
// the spec selects, on twin constituents; all constituents compared afterwards.
func c06Routing(t *T) {
	c := t.C
	w := buildMountWorld(t, drawPoints(t), false)
	t.Logf("mode=routing mounts=%v", w.points)
	// MountPoints() equals the accepted set
	checkPoints := func() {
		var got []string
		for _, p := range w.mfs.MountPoints() {
			got = append(got, p.Path)
		}
		sort.Strings(got)
		want := append([]string(nil), w.points...)
		sort.Strings(want)
		if strings.Join(got, ",") != strings.Join(want, ",") {
			t.Fail("mountpoints", "C06:mountpoints-differ", fmt.Sprintf("MountPoints() = %v, accepted mounts %v", got, want))
		}
	}
	checkPoints()
	g := newFsGen(t, []string{"a", "ab", "b", "c"}, 4)
	n := 2 + c.Draw(14)
	for i := 0; i < n; i++ {
		if c.Chance(1, 7) {
			// AddMount validation: missing dir, regular file, existing mount point, ".", invalid name
			p := []string{"nope", "nope/x", "own-.", ".", "a/", "", "a", "ab", "x/../a"}[c.Draw(9)]
			if len(w.points) > 0 && c.Chance(1, 2) {
				p = w.points[c.Draw(len(w.points))]
			}
			pt, sub := routeSpec(w.points, p)
			okDir := false
			if hackpadfs.ValidPath(p) && p != "." {
				if info, err := hackpadfs.Stat(w.twin[pt], sub); err == nil && info.IsDir() {
					okDir = true
				}
			}
			isMount := false
			for _, m := range w.points {
				if m == p {
					isMount = true
				}
			}
			extra, _ := mem.NewFS()
			err := w.mfs.AddMount(p, extra)
			t.Logf("%d AddMount(%q) -> %v (existing dir=%v, already a mount point=%v)", i, p, err, okDir, isMount)
			switch {
			case err == nil && (!okDir || isMount):
				t.Fail("addmount", "C06:addmount-accepted:dir="+fmt.Sprint(okDir)+":mounted="+fmt.Sprint(isMount), fmt.Sprintf("AddMount(%q) succeeded although the path is not an existing directory / already is a mount point (mounts %v)", p, w.points))
			case err != nil && okDir && !isMount:
				t.Fail("addmount", "C06:addmount-refused", fmt.Sprintf("AddMount(%q) on an existing directory that is not a mount point failed: %v", p, err))
			case err == nil:
				tw, _ := mem.NewFS()
				w.parts[p], w.twin[p] = extra, tw
				w.points = append(w.points, p)
			}
			checkPoints()
			continue
		}
		o := g.next()
		if (o.Kind == "Remove" || o.Kind == "RemoveAll" || o.Kind == "Rename") && (o.P == "." || o.Q == ".") {
			continue
		}
		// outside the comparison: a mount point itself as operand of Remove/Rename (there is no counterpart on the twin).
		// An ANCESTOR of a mount point is an ordinary operand: the call goes to the file system that holds it and to no other
		skip := false
		if o.Kind == "Remove" || o.Kind == "RemoveAll" || o.Kind == "Rename" {
			for _, m := range w.points {
				if o.P == m || (o.Kind == "Rename" && o.Q == m) {
					skip = true
				}
			}
		}
		if skip {
			continue
		}
		if o.Kind == "ReadFile" && t.Avoid("readfile-of-directory") {
			pt, sub := routeSpec(w.points, o.P)
			if info, err := hackpadfs.Stat(w.twin[pt], sub); err == nil && info.IsDir() {
				continue
			}
		}
		pt, sub := routeSpec(w.points, o.P)
		direct := o
		direct.P = sub
		var want Out
		cross := false
		if o.Kind == "Rename" {
			pt2, sub2 := routeSpec(w.points, o.Q)
			if pt2 != pt {
				cross = true
			} else {
				direct.Q = sub2
			}
		}
		before := w.snapshotParts(w.twin, false)
		got := applyOp(w.mfs, o)
		if cross {
			t.Logf("%d %s -> %s (cross-mount, judged in the cross-rename mode)", i, o, errClass(got.Err))
			// keep the twin in step: replay the effect by copying state is not possible generically; stop here
			if got.Err == nil {
				return
			}
			continue
		}
		want = applyOp(w.twin[pt], direct)
		t.Logf("%d %s -> mount=%s | direct on %q at %q = %s", i, o, errClass(got.Err), pt, sub, errClass(want.Err))
		sig := "C06:routing:" + o.Kind
		if errClass(got.Err) != errClass(want.Err) {
			t.Fail("outcome", sig+":mount="+errClass(got.Err)+":direct="+errClass(want.Err), fmt.Sprintf("%s through the mount FS (mounts %v): %v; applied directly to the FS mounted at %q as %q: %v", o, w.points, got.Err, pt, sub, want.Err))
		}
		if got.Err == nil && got.Data != want.Data && !(o.Kind == "Stat" && sub == ".") && o.Kind != "ReadDir" {
			t.Fail("data", sig+":data", fmt.Sprintf("%s through the mount FS returned %q; directly on the FS mounted at %q: %q", o, got.Data, pt, want.Data))
		}
		if a, b := w.snapshotParts(w.parts, false), w.snapshotParts(w.twin, false); a != b {
			t.Fail("leak", sig+":constituents-differ", fmt.Sprintf("after %s through the mount FS (mounts %v, expected target %q at %q) the constituent file systems differ from the twin's:\nmounted:\n%s\ntwin:\n%s\n(twin before the op:\n%s)", o, w.points, pt, sub, a, b, before))
		}
		if o.Mutating() {
			// generator view: the logical tree as seen through the mount FS
			g.observe(takeSnapshot(w.mfs, snapOpts{NoContent: true}))
		}
	}
	t.NonTrivial()
}

// c06CrossRename: rename of a regular file across two mounts with faults on either side.
// c06RenameOddEnds: what is not "a regular file renamed across two mounts" must not pass for one. A source that
// does not exist, and a destination whose files cannot be written: Rename fails and both sides stay as they were.
func c06RenameOddEnds(t *T) {
	c := t.C
	srcPt := []string{"a", "b", "."}[c.Draw(3)]
	dstPt := map[string]string{"a": "b", "b": ".", ".": "a"}[srcPt]
	w := buildMountWorld(t, []string{"a", "b"}, true)
	name := func(pt, base string) string {
		if pt == "." {
			return base
		}
		return pt + "/" + base
	}
	src, dst := name(srcPt, "src"), name(dstPt, "dst")
	what := ""
	switch c.Draw(2) {
	case 0:
		what = "missing-source"
		switch c.Draw(3) {
		case 1:
			must(t, hackpadfs.WriteFullFile(w.cores[dstPt].inner, "dst", []byte("old destination"), 0600))
			what += ":onto-file"
		case 2:
			must(t, hackpadfs.Mkdir(w.cores[dstPt].inner, "dst", 0755))
			what += ":onto-directory"
		}
	default:
		what = "destination-files-without-Write"
		must(t, hackpadfs.WriteFullFile(w.cores[srcPt].inner, "src", uniqueData(1, 700), 0644))
		w.cores[dstPt].fileMode = "base"
	}
	pre := w.snapshotParts(w.parts, true)
	err := w.mfs.Rename(src, dst)
	post := w.snapshotParts(w.parts, true)
	t.Logf("mode=cross-rename-odd-ends %s: Rename(%q,%q) -> %v", what, src, dst, err)
	if err == nil {
		t.Fail("rename", "C06:cross-rename:"+what+":returned-nil", fmt.Sprintf("Rename(%q,%q) across two mounts (%s) returned nil", src, dst, what))
	}
	if post != pre {
		t.Fail("rename", "C06:cross-rename:"+what+":failed-but-changed", fmt.Sprintf("Rename(%q,%q) across two mounts (%s) failed (%v) but the file systems changed:\nbefore:\n%s\nafter:\n%s", src, dst, what, err, pre, post))
	}
	t.NonTrivial()
}

// c06AddMountFault: AddMount while the file system that holds the mount point fails one call: nil means mounted.
func c06AddMountFault(t *T) {
	c := t.C
	w := buildMountWorld(t, nil, true)
	must(t, hackpadfs.Mkdir(w.cores["."].inner, "a", 0755))
	m, _ := mem.NewFS()
	must(t, hackpadfs.WriteFullFile(m, "marker", []byte("mounted"), 0644))
	core := w.cores["."]
	core.faultAt = len(core.calls) + c.Draw(4)
	err := w.mfs.AddMount("a", m)
	fired := core.fired
	core.faultAt = -1
	_, serr := hackpadfs.Stat(w.mfs, "a/marker")
	mounted := false
	for _, p := range w.mfs.MountPoints() {
		if p.Path == "a" {
			mounted = true
		}
	}
	t.Logf("mode=addmount-fault AddMount(a) -> %v (fault fired: %q); listed as mounted=%v; Stat(a/marker) -> %v", err, fired, mounted, serr)
	if fired == "" {
		return
	}
	if (err == nil) != mounted || (err == nil) != (serr == nil) {
		t.Fail("addmount", "C06:addmount:fault="+fired+":outcome-and-table-disagree", fmt.Sprintf("AddMount(\"a\") returned %v after the parent's %s failed, but the mount table lists it: %v, and a path below it resolves into the new file system: %v", err, fired, mounted, serr == nil))
	}
	t.Stat("probe:fault-inside-addmount")
	t.NonTrivial()
}

func c06CrossRename(t *T) {
	c := t.C
	switch c.Weighted(12, 1, 1) {
	case 1:
		c06RenameOddEnds(t)
		return
	case 2:
		c06AddMountFault(t)
		return
	}
	srcPt := []string{"a", "b", "."}[c.Draw(3)]
	dstPt := []string{"b", "a", "."}[c.Draw(3)]
	if srcPt == dstPt {
		dstPt = map[string]string{"a": "b", "b": ".", ".": "a"}[srcPt]
	}
	// a destination file system that can make and write files but has no Chmod at all, neither on the file system
	// nor on its handles (only where the destination is new: a mode it cannot set on an existing file is not the
	// property's business)
	dstNoChmod := c.Chance(1, 4)
	w := buildMountWorld(t, []string{"a", "b"}, true, func(point string) []string {
		if dstNoChmod && point == dstPt {
			return []string{"OpenFile", "Mkdir", "MkdirAll", "Remove", "Rename", "Stat", "Chtimes"}
		}
		return memFullIfs
	})
	data := uniqueData(1, []int{1500, 0, 1, 513, 40000}[c.Draw(5)])
	mode := []hackpadfs.FileMode{0644, 0600, 0755}[c.Draw(3)]
	name := func(pt, base string) string {
		if pt == "." {
			return base
		}
		return pt + "/" + base
	}
	src, dst := name(srcPt, "src"), name(dstPt, "dst")
	must(t, hackpadfs.WriteFullFile(w.cores[srcPt].inner, "src", data, mode))
	dstExisted := c.Chance(1, 3) && !dstNoChmod
	if dstNoChmod {
		w.cores[dstPt].fileMode = "only:Write"
	}
	if dstExisted {
		must(t, hackpadfs.WriteFullFile(w.cores[dstPt].inner, "dst", []byte("old destination"), 0600))
	}
	faultSide := ""
	if c.Chance(3, 4) && !(dstExisted && t.Avoid("cross-mount-rename-fault-with-existing-destination")) {
		faultSide = []string{srcPt, dstPt}[c.Weighted(1, 2)]
		w.cores[faultSide].faultAt = len(w.cores[faultSide].calls) + c.Draw(8)
		w.cores[faultSide].short = c.Chance(1, 2)
		w.cores[faultSide].lossyClose = true
	}
	pre := w.snapshotParts(w.parts, true)
	t.Logf("mode=cross-rename %s -> %s (%d bytes, mode %04o) destination existed=%v (without Chmod=%v) fault side=%q", src, dst, len(data), mode, dstExisted, dstNoChmod, faultSide)
	err := w.mfs.Rename(src, dst)
	fired := ""
	if faultSide != "" {
		fired = w.cores[faultSide].fired
		w.cores[faultSide].faultAt = -1
	}
	post := w.snapshotParts(w.parts, true)
	t.Logf("Rename -> %v; fault fired=%q; calls src=%v dst=%v", err, fired, w.cores[srcPt].calls, w.cores[dstPt].calls)
	for _, pt := range []string{srcPt, dstPt} {
		// whatever the outcome, the copy's handles are the mount FS's own and are closed when Rename returns (a handle
		// left open on either side is a difference to "only at the destination" / "both sides unchanged" that the next
		// Remove on some systems, and every descriptor limit, will notice)
		if n := w.cores[pt].live; n != 0 {
			t.Fail("rename", "C06:cross-rename:fault="+fired+":handle-left-open", fmt.Sprintf("Rename(%q,%q) returned (%v) with %d handle(s) still open on the file system mounted at %q; calls: %v", src, dst, err, n, pt, w.cores[pt].calls))
		}
	}
	sig := "C06:cross-rename:fault=" + fired
	if dstExisted {
		sig += ":dst-existed"
	}
	if err == nil {
		// only at the destination, same bytes and mode
		if _, serr := hackpadfs.Stat(w.cores[srcPt].inner, "src"); serr == nil {
			t.Fail("rename", sig+":ok-but-source-remains", fmt.Sprintf("Rename(%q,%q) returned nil but %q still exists", src, dst, src))
		}
		b, rerr := hackpadfs.ReadFile(w.cores[dstPt].inner, "dst")
		info, _ := hackpadfs.Stat(w.cores[dstPt].inner, "dst")
		if rerr != nil || !bytes.Equal(b, data) {
			t.Fail("rename", sig+":ok-but-wrong-bytes", fmt.Sprintf("Rename(%q,%q) returned nil; the destination holds %d bytes (%v), the source held %d", src, dst, len(b), rerr, len(data)))
		}
		if info != nil && info.Mode().Perm() != mode {
			t.Fail("rename", sig+":ok-but-wrong-mode", fmt.Sprintf("Rename(%q,%q) returned nil; destination mode %04o, source mode %04o", src, dst, info.Mode().Perm(), mode))
		}
	} else if post != pre {
		if errors.Is(err, hackpadfs.ErrNotImplemented) {
			return
		}
		t.Fail("rename", sig+":failed-but-changed", fmt.Sprintf("Rename(%q,%q) failed (%v) but the file systems changed:\nbefore:\n%s\nafter:\n%s", src, dst, err, pre, post))
	}
	if fired != "" {
		t.Stat("probe:fault-inside-cross-mount-rename")
	}
	t.NonTrivial()
}

// c06ConcurrentAddMount: several tasks mount the same point (and a nested one) under the scheduler.
func c06ConcurrentAddMount(t *T) {
	c := t.C
	ntasks := 2 + c.Draw(3)
	targets := []string{"a", "a", "a", "a/b", "b"}
	results := make([]error, ntasks)
	points := make([]string, ntasks)
	mems := make([]*mem.FS, ntasks)
	var rootFS *mem.FS
	var mfs *mount.FS
	var badFS *mem.FS
	var badErr error
	badDone := false
	inBubble(t, 20000, func(s *Sched) {
		root, _ := mem.NewFS()
		must(t, root.MkdirAll("a/b", 0755))
		must(t, root.Mkdir("b", 0755))
		mfs, _ = mount.NewFS(root)
		rootFS = root
		// a task that only looks paths up while the mounting goes on (whatever a lookup remembers must not outlive
		// the table it was made against)
		if c.Chance(1, 2) {
			lookups := []string{"a/zz", "a/b/zz", "b/zz", "a"}
			nl := 1 + c.Draw(3)
			var seq []string
			for j := 0; j < nl; j++ {
				seq = append(seq, lookups[c.Draw(len(lookups))])
			}
			s.Go("looker", func() {
				for _, p := range seq {
					_, err := hackpadfs.Stat(mfs, p)
					t.Logf("looker Stat(%q) -> %s", p, errClass(err))
				}
			})
		}
		for i := 0; i < ntasks; i++ {
			i := i
			points[i] = targets[c.Draw(len(targets))]
			m, _ := mem.NewFS()
			mems[i] = m
			must(t, m.Mkdir("b", 0755)) // so that a/b also exists inside a mount at a
			s.Go(fmt.Sprintf("mounter%d", i), func() {
				results[i] = mfs.AddMount(points[i], m)
				t.Logf("mounter%d AddMount(%q) -> %v", i, points[i], results[i])
			})
		}
		// an AddMount that must fail (missing directory / regular file) racing with operations on that path:
		// nothing may ever be routed into a file system that was never mounted
		if c.Chance(1, 2) {
			badPoint := []string{"nope", "file", "a/nope"}[c.Draw(3)]
			must(t, hackpadfs.WriteFullFile(root, "file", []byte("f"), 0644))
			badFS, _ = mem.NewFS()
			s.Go("bad-mounter", func() {
				badErr = mfs.AddMount(badPoint, badFS)
				badDone = true
				t.Logf("bad-mounter AddMount(%q) -> %v", badPoint, badErr)
			})
			nusers := 1 + c.Draw(2)
			for u := 0; u < nusers; u++ {
				u := u
				s.Go(fmt.Sprintf("user%d", u), func() {
					for k := 0; k < 2; k++ {
						err := hackpadfs.WriteFullFile(mfs, badPoint+"/x", []byte("stray"), 0644)
						t.Logf("user%d WriteFullFile(%q) -> %v", u, badPoint+"/x", err)
						_, _ = hackpadfs.Stat(mfs, badPoint)
					}
				})
			}
		}
		t.Logf("mode=concurrent-addmount %v", points)
		s.Run()
		if !t.Failed() {
			// afterwards, alone: a file written below each mounted point lands in the file system that won that point
			// (the longest one), under the remainder of the path, and nowhere else
			var table []string
			winner := map[string]*mem.FS{}
			for i, p := range points {
				if results[i] == nil {
					if _, dup := winner[p]; !dup {
						table = append(table, p)
					}
					winner[p] = mems[i]
				}
			}
			probes := []string{"a/zz", "a/b/zz", "b/zz"}
			for _, pi := range c.Perm(len(probes)) {
				pth := probes[pi]
				pt, sub := routeSpec(table, pth)
				target := hackpadfs.FS(rootFS)
				if pt != "." {
					target = winner[pt]
				}
				err := hackpadfs.WriteFullFile(mfs, pth, []byte("probe"), 0644)
				_, serr := hackpadfs.Stat(target, sub)
				t.Logf("afterwards WriteFullFile(%q) -> %v; expected in the FS mounted at %q as %q: %v", pth, err, pt, sub, serr)
				if err == nil && serr != nil {
					t.failNoPanic("leak", "C06:concurrent-addmount:misrouted-afterwards", fmt.Sprintf("after the concurrent AddMount calls (table %v) WriteFullFile(%q) succeeded but the file is not in the file system mounted at %q under %q (%v)", table, pth, pt, sub, serr))
					break
				}
			}
		}
		if badFS != nil && !t.Failed() {
			if badDone && badErr == nil {
				t.failNoPanic("addmount", "C06:concurrent-addmount:bad-point-accepted", "AddMount on a missing directory / a regular file succeeded")
			}
			if ents, err := hackpadfs.ReadDir(badFS, "."); err == nil && len(ents) > 0 {
				t.failNoPanic("leak", "C06:concurrent-addmount:routed-into-unmounted-fs", fmt.Sprintf("an operation issued while an AddMount that failed was in progress took effect in the file system that was never mounted (it now holds %d entries)", len(ents)))
			}
		}
	})
	if t.Failed() {
		return
	}
	wins := map[string]int{}
	tried := map[string]int{}
	for i, p := range points {
		tried[p]++
		if results[i] == nil {
			wins[p]++
		}
	}
	var table []string
	for _, p := range mfs.MountPoints() {
		table = append(table, p.Path)
	}
	sort.Strings(table)
	for p := range tried {
		if wins[p] != 1 {
			t.failNoPanic("addmount", fmt.Sprintf("C06:concurrent-addmount:winners=%d", wins[p]), fmt.Sprintf("%d concurrent AddMount(%q) calls: %d succeeded (exactly one must); results %v", tried[p], p, wins[p], results))
		}
	}
	var want []string
	for p := range wins {
		want = append(want, p)
	}
	sort.Strings(want)
	if strings.Join(table, ",") != strings.Join(want, ",") {
		t.failNoPanic("addmount", "C06:concurrent-addmount:table", fmt.Sprintf("mount table %v, winners %v", table, want))
	}
	t.NonTrivial()
}

// c06ExistingDstProbe: cross-mount rename onto an existing file whose copy fails part way.
func c06ExistingDstProbe(t *T) {
	defer beginTrial(t, false)()
	// the finding does not hinge on where exactly the copy fails: several fault points are tried, so that a change in
	// how the copy is cut into calls (one Write instead of four, say) does not make the probe pass for want of a
	// second Write and the finding look repaired
	for _, at := range []struct {
		side, kind string
		n          int
	}{{"b", "file.Write", 0}, {"b", "file.Write", 1}, {"b", "file.CloseWritten", 0}, {"a", "file.Read", 1}} {
		w := buildMountWorld(t, []string{"a", "b"}, true)
		must(t, hackpadfs.WriteFullFile(w.cores["a"].inner, "src", uniqueData(1, 100000), 0644))
		must(t, hackpadfs.WriteFullFile(w.cores["b"].inner, "dst", []byte("old destination"), 0600))
		w.cores[at.side].faultKind, w.cores[at.side].faultAt = at.kind, at.n
		pre := w.snapshotParts(w.parts, true)
		err := w.mfs.Rename("a/src", "b/dst")
		if err != nil && w.snapshotParts(w.parts, true) != pre {
			t.Fail("rename", "C06:cross-rename:fault=file.Write:dst-existed:failed-but-changed", "a failed cross-mount rename onto an existing file destroyed the old destination")
		}
	}
}

func c06SourceRemoveFailsProbe(t *T) {
	defer beginTrial(t, false)()
	w := buildMountWorld(t, []string{"a", "b"}, true)
	must(t, hackpadfs.WriteFullFile(w.cores["a"].inner, "src", uniqueData(1, 100), 0644))
	w.cores["a"].faultKind, w.cores["a"].faultAt = "Remove", 0
	pre := w.snapshotParts(w.parts, true)
	err := w.mfs.Rename("a/src", "b/dst")
	if err != nil && w.snapshotParts(w.parts, true) != pre {
		t.Fail("rename", "C06:cross-rename:fault=Remove:failed-but-changed", "a cross-mount rename whose source removal failed left the copy at the destination")
	}
}

// c06ExistingDstModeProbe: fault-free cross-mount rename onto an existing file with another mode.
func c06ExistingDstModeProbe(t *T) {
	defer beginTrial(t, false)()
	w := buildMountWorld(t, []string{"a", "b"}, true)
	must(t, hackpadfs.WriteFullFile(w.cores["a"].inner, "src", []byte("new contents"), 0644))
	must(t, hackpadfs.WriteFullFile(w.cores["b"].inner, "dst", []byte("old destination"), 0600))
	if err := w.mfs.Rename("a/src", "b/dst"); err != nil {
		t.Fail("rename", "C06:cross-rename:fault=:dst-existed:failed", err.Error())
	}
	info, err := hackpadfs.Stat(w.cores["b"].inner, "dst")
	if err != nil || info.Mode().Perm() != 0644 {
		t.Fail("rename", "C06:cross-rename:fault=:dst-existed:ok-but-wrong-mode", fmt.Sprintf("destination after the rename: %v, %v; the source had mode 0644", info, err))
	}
}

func init() {
	RegisterProbe("c06-cross-rename-existing-dst-mode", c06ExistingDstModeProbe)
	RegisterProbe("c06-cross-rename-existing-dst", c06ExistingDstProbe)
	RegisterProbe("c06-cross-rename-source-remove-fails", c06SourceRemoveFailsProbe)
	Register(&Engine{
		Prop: "C06", Name: "mountsim", Run: runC06,
		Trials: map[string]int{"quick": 40000, "thorough": 400000},
		Rule:   "three drawn modes. routing: 0-4 mount points out of {a, ab, b, a/b, a/b/c, ab/c} (nested points, string-prefix look-alikes), every constituent a separate mem.FS with distinguishable content, the iteration order of the mount table redrawn from the choice stream on every lookup; 2-15 operations through the mount FS over paths up to depth 4, each compared with the same operation applied directly to the constituent a ten-line routing spec selects on twin constituents, all constituents compared afterwards; AddMount attempts on missing/regular/mounted/'.'/invalid paths and MountPoints() are judged. cross-rename: a regular file (0..40000 bytes) renamed across two mounts whose constituents sit behind fault wrappers (create fails, k-th write fails after a prefix, close loses the tail, removal of the source fails, destination existed): only at the destination with the same bytes and mode, or error and both sides unchanged. concurrent-addmount: 2-4 tasks mount the same/nested points under the seeded scheduler (gates at mountMu and inside the parent FS): exactly one winner per point, table = winners, no deadlock; distinct = event-log hash Also: a task that only looks paths up while AddMount calls race and a write below every mounted point afterwards against the routing spec; a destination without any Chmod; a missing source and a destination whose files cannot be written (Rename fails, nothing changes); AddMount while the parent fails one call (nil means mounted); no handle of the mount FS's own stays open after AddMount or Rename.",
		Components: map[string][]string{
			"real": {"mount.FS", "fs.go MountFS delegation", "mem.FS constituents"},
			"stub": {"fault wrappers around constituents (cross-rename mode)"},
		},
	})
}
