package sim

import (
	"bytes"
	"fmt"
	"io"
	"math"
	"sort"
	"strings"

	"github.com/hack-pad/hackpadfs"
	"github.com/hack-pad/hackpadfs/cache"
	"github.com/hack-pad/hackpadfs/mem"
	"github.com/hack-pad/hackpadfs/mount"
)

// cachesim: cache.ReadOnlyFS between a source behind a counting/faulting wrapper and a cache store
// behind another one (C10: fault-free transparency, C11: fill faults and concurrent first opens).

type cacheWorld struct {
	t         *T
	srcInner  hackpadfs.FS // mem.FS, or (1 in 4) a mount.FS whose directory d is a mount point
	srcDesc   string
	src       *capCore
	store     *capCore
	storeIn   *mem.FS
	cfs       *cache.ReadOnlyFS
	files     map[string][]byte
	dirs      []string
	retain    func(name string, info hackpadfs.FileInfo) bool
	retDesc   string
	storeMin  bool
	srcNoSeek bool // the source's file handles have no Seek
	// firstAnswer (stateful policies): what the policy said when it was first asked about a name
	firstAnswer map[string]bool
}

type cacheStoreIface interface {
	hackpadfs.OpenFileFS
	hackpadfs.MkdirFS
}

var cacheSizes = []int{0, 1, 511, 512, 513, 1024, 1500, 2000, 4096}

func newCacheWorld(t *T, sizes []int) *cacheWorld {
	c := t.C
	w := &cacheWorld{t: t, files: map[string][]byte{}}
	rootMem, _ := mem.NewFS()
	w.srcInner, w.srcDesc = rootMem, "mem"
	w.storeIn, _ = mem.NewFS()
	// source tree: a few files in the root and below d/ and d/e/
	paths := []string{"f0", "d/f1", "d/e/f2", "g3", "d/f4"}
	nfiles := 2 + c.Draw(len(paths)-1)
	if c.Chance(1, 4) {
		// a composed source: d is a mount point. The covered directory (0700) and the mounted root (0755)
		// answer differently, so an entry of the parent's listing is not the Stat of the child
		must(t, rootMem.Mkdir("d", 0700))
		mounted, _ := mem.NewFS()
		mfs, err := mount.NewFS(rootMem)
		must(t, err)
		must(t, mfs.AddMount("d", mounted))
		w.srcInner, w.srcDesc = mfs, "mount(mem; d -> mem)"
	}
	must(t, hackpadfs.MkdirAll(w.srcInner, "d/e", 0755))
	must(t, hackpadfs.Mkdir(w.srcInner, "empty", 0700))
	w.dirs = []string{".", "d", "d/e", "empty"}
	for i := 0; i < nfiles; i++ {
		data := uniqueData(i+1, sizes[c.Draw(len(sizes))])
		w.files[paths[i]] = data
		must(t, hackpadfs.WriteFullFile(w.srcInner, paths[i], data, []hackpadfs.FileMode{0644, 0600, 0444}[c.Draw(3)]))
	}
	w.src = &capCore{t: t, inner: w.srcInner, faultAt: -1, label: "src.", opens: map[string]int{}, reads: map[string]int{}, readShape: c.Weighted(3, 1, 1, 1)}
	if c.Chance(1, 3) {
		w.src.readErr = io.ErrUnexpectedEOF
	}
	if c.Chance(1, 4) {
		// a source whose files cannot seek (a stream-like source: only Read, Stat, Close, and ReadDir for directories):
		// after copying, the cache cannot rewind the handle it has and must hand out one from its store
		w.src.fileMode = "only:ReadDir"
		w.srcNoSeek = true
		t.Stat("c10:source-files-without-seek")
	}
	w.store = &capCore{t: t, inner: w.storeIn, faultAt: -1, label: "store.", writing: map[string]int{}, short: c.Chance(1, 2), lossyClose: true}
	switch c.Draw(5) {
	case 4:
		// a policy with a memory: retain while a byte budget lasts. The library may ask it when it has to decide
		// about a copy, not on every open of a file it already holds
		budget, used := int64(1000+c.Draw(3000)), int64(0)
		w.firstAnswer = map[string]bool{}
		w.retain, w.retDesc = func(name string, info hackpadfs.FileInfo) bool {
			ok := used+info.Size() <= budget
			if ok {
				used += info.Size()
			}
			if _, seen := w.firstAnswer[name]; !seen {
				w.firstAnswer[name] = ok
			}
			return ok
		}, fmt.Sprintf("budget(%d bytes)", budget)
	case 0:
		w.retain, w.retDesc = nil, "always(default)"
	case 1:
		w.retain, w.retDesc = func(string, hackpadfs.FileInfo) bool { return false }, "never"
	case 2:
		w.retain, w.retDesc = func(name string, _ hackpadfs.FileInfo) bool {
			return strings.Contains(name, "1") || strings.Contains(name, "0")
		}, "by-name(0,1)"
	default:
		w.retain, w.retDesc = func(_ string, info hackpadfs.FileInfo) bool { return info.Size() >= 512 }, "by-size(>=512)"
	}
	var srcFS hackpadfs.FS = newCapFS(w.src, nil)
	if c.Chance(1, 2) {
		srcFS = newCapFS(w.src, []string{"ReadDir", "Stat"})
	}
	var storeFS cacheStoreIface
	if c.Chance(1, 2) {
		w.storeMin = true
		storeFS = newCapFS(w.store, []string{"OpenFile", "Mkdir"}).(cacheStoreIface)
	} else {
		storeFS = newCapFS(w.store, []string{"OpenFile", "Mkdir", "Chmod", "Stat"}).(cacheStoreIface)
	}
	cfs, err := cache.NewReadOnlyFS(srcFS, storeFS, cache.ReadOnlyOptions{RetainData: w.retain})
	must(t, err)
	w.cfs = cfs
	return w
}

func (w *cacheWorld) retained(name string) bool {
	if w.retain == nil {
		return true
	}
	if w.firstAnswer != nil {
		return w.firstAnswer[name]
	}
	info, err := hackpadfs.Stat(w.srcInner, name)
	if err != nil {
		return false
	}
	return w.retain(name, info)
}

func (w *cacheWorld) names() []string {
	var l []string
	for n := range w.files {
		l = append(l, n)
	}
	sort.Strings(l)
	return l
}

// readAllFrom reads a handle to the end with the given buffer size; returns bytes and whether EOF came properly.
func readAllFrom(f hackpadfs.File, bufSize int) ([]byte, error) {
	var out []byte
	buf := make([]byte, bufSize)
	for i := 0; i < 100000; i++ {
		n, err := f.Read(buf)
		out = append(out, buf[:n]...)
		if err == io.EOF {
			return out, nil
		}
		if err != nil {
			return out, err
		}
		if n == 0 && bufSize > 0 {
			return out, fmt.Errorf("Read returned (0, nil) for a %d byte buffer", bufSize)
		}
	}
	return out, fmt.Errorf("no EOF after 100000 reads")
}

// ---- C10 ------------------------------------------------------------------------------------------------

func runC10(t *T) {
	c := t.C
	defer beginTrial(t, true)()
	if c.Chance(1, 2) {
		cur.knobs["cacheCopyBuf"] = uint64([]int{1, 7, 64, 512, 4096}[c.Draw(5)])
	}
	w := newCacheWorld(t, cacheSizes)
	t.Logf("source=%s (files seek: %v) retain=%s minimal-store=%v src-read-shape=%d copybuf=%v files=%v", w.srcDesc, !w.srcNoSeek, w.retDesc, w.storeMin, w.src.readShape, cur.knobs["cacheCopyBuf"], w.names())
	type hp struct {
		c, m         hackpadfs.File
		name         string
		cents, ments []string // names delivered so far by paged ReadDir on each side
		cdone, mdone bool
	}
	var hs []*hp
	defer func() {
		for _, h := range hs {
			h.c.Close()
			h.m.Close()
		}
	}()
	opened := map[string]bool{}
	cand := append(append(w.names(), w.dirs...), "missing", "d/missing")
	if c.Chance(1, 6) && w.firstAnswer == nil { // (not with the budget policy: a fill that failed has used up budget, and what the policy says next is its own affair)
		// history before the compared sequence: one fill that failed (and, on the minimal store, could not be cleaned
		// up). Nothing of it is compared; from here on nothing fails, and the statement holds for what follows
		names := w.names()
		name := names[c.Draw(len(names))]
		target, kind := w.store, []string{"file.Write", "file.CloseWritten", "OpenFile"}[c.Draw(3)]
		if c.Chance(1, 3) {
			target, kind = w.src, "file.Read"
		}
		target.faultKind, target.kindSeen, target.faultAt, target.fired = kind, 0, c.Draw(3), ""
		f, err := w.cfs.Open(name)
		if err == nil {
			f.Close()
		}
		t.Logf("prelude: Open(%q) with a failing %s -> %s (fault fired: %q)", name, kind, errClass(err), target.fired)
		if target.fired != "" {
			t.Stat("c10:failed-fill-before-the-sequence")
		}
		target.faultAt, target.faultKind, target.fired = -1, "", ""
	}
	n := 3 + c.Draw(14)
	for i := 0; i < n; i++ {
		sig := "C10:"
		switch k := c.Weighted(5, 3, 5, 2, 2, 2); k {
		case 0: // Open
			name := cand[c.Draw(len(cand))]
			srcOpens, srcReads := w.src.opens[name], w.src.reads[name]
			cf, cerr := w.cfs.Open(name)
			mf, merr := w.srcInner.Open(name)
			t.Logf("%d Open(%q) -> cache=%s source=%s", i, name, errClass(cerr), errClass(merr))
			if (cerr == nil) != (merr == nil) {
				t.Fail("open", sig+"open-outcome", fmt.Sprintf("Open(%q): cache %v, source %v", name, cerr, merr))
			}
			if cerr != nil {
				continue
			}
			if opened[name] && w.retained(name) {
				if w.src.opens[name] != srcOpens || w.src.reads[name] != srcReads {
					cf.Close()
					mf.Close()
					t.Fail("source-read-again", sig+"source-read-again", fmt.Sprintf("the retained file %q had been opened successfully before, yet Open touched the source again (source Open calls %d -> %d, Read calls %d -> %d)", name, srcOpens, w.src.opens[name], srcReads, w.src.reads[name]))
				}
				t.Stat("probe:reopen-of-retained-file")
			}
			if _, isFile := w.files[name]; isFile {
				opened[name] = true
			}
			hs = append(hs, &hp{c: cf, m: mf, name: name})
		case 1: // Stat by name
			name := cand[c.Draw(len(cand))]
			ci, cerr := w.cfs.Stat(name)
			mi, merr := hackpadfs.Stat(w.srcInner, name)
			t.Logf("%d Stat(%q) -> cache=%s source=%s", i, name, errClass(cerr), errClass(merr))
			if (cerr == nil) != (merr == nil) || (cerr == nil && infoString(ci) != infoString(mi)) {
				t.Fail("stat", sig+"stat", fmt.Sprintf("Stat(%q): cache (%s, %v), source (%s, %v)", name, infoString(ci), cerr, infoString(mi), merr))
			}
		default:
			if len(hs) == 0 {
				continue
			}
			hi := c.Draw(len(hs))
			h := hs[hi]
			switch k {
			case 2: // Read
				n := []int{16, 1, 0, 512, 600, 5000}[c.Draw(6)]
				cb, mb := make([]byte, n), make([]byte, n)
				// the cache may deliver a read in fewer, shorter pieces than the source: compare streams
				cn, cerr := io.ReadFull(h.c, cb)
				mn, merr := io.ReadFull(h.m, mb)
				t.Logf("%d h%d(%s).ReadFull(%d) -> cache n=%d %v | source n=%d %v", i, hi, h.name, n, cn, cerr, mn, merr)
				if cn != mn || !bytes.Equal(cb[:cn], mb[:mn]) || (cerr == nil) != (merr == nil) {
					t.Fail("read", sig+"read", fmt.Sprintf("reading %d bytes from %q: cache delivered %d bytes (%v) %q, source %d bytes (%v) %q", n, h.name, cn, cerr, clip(cb[:cn]), mn, merr, clip(mb[:mn])))
				}
			case 3: // Seek (regular files only: seeking a directory handle is not part of any listed contract)
				if _, isFile := w.files[h.name]; !isFile {
					continue
				}
				if w.srcNoSeek && !w.retained(h.name) {
					continue // the cache hands the source's own handle through: it seeks as well as that one does
				}
				off := int64([]int{0, 1, 511, 512, 513, -1}[c.Draw(6)])
				wh := c.Draw(3)
				co, cerr := hackpadfs.SeekFile(h.c, off, wh)
				mo, merr := hackpadfs.SeekFile(h.m, off, wh)
				t.Logf("%d h%d(%s).Seek(%d,%d) -> cache %d %s | source %d %s", i, hi, h.name, off, wh, co, errClass(cerr), mo, errClass(merr))
				if (cerr == nil) != (merr == nil) || (cerr == nil && co != mo) {
					t.Fail("seek", sig+"seek", fmt.Sprintf("Seek(%d,%d) on %q: cache (%d, %v), source (%d, %v)", off, wh, h.name, co, cerr, mo, merr))
				}
			case 4: // handle Stat / ReadDir page
				if c.Chance(1, 2) {
					ci, cerr := h.c.Stat()
					mi, merr := h.m.Stat()
					if (cerr == nil) != (merr == nil) || (cerr == nil && infoString(ci) != infoString(mi)) {
						t.Fail("stat", sig+"handle-stat", fmt.Sprintf("Stat on a handle of %q: cache (%s, %v), source (%s, %v)", h.name, infoString(ci), cerr, infoString(mi), merr))
					}
				} else {
					n := []int{-1, 1, 2, 100, math.MaxInt}[c.Draw(5)]
					ce, cerr := hackpadfs.ReadDirFile(h.c, n)
					me, merr := hackpadfs.ReadDirFile(h.m, n)
					t.Logf("%d h%d(%s).ReadDir(%d) -> cache %d %s | source %d %s", i, hi, h.name, n, len(ce), errClass(cerr), len(me), errClass(merr))
					for _, e := range ce {
						h.cents = append(h.cents, fmt.Sprintf("%s:%v", e.Name(), e.IsDir()))
					}
					c16Scribble(ce) // a page belongs to the caller
					for _, e := range me {
						h.ments = append(h.ments, fmt.Sprintf("%s:%v", e.Name(), e.IsDir()))
					}
					// the order of pages is not specified; both sides deliver the same number of entries per
					// call (the directory is not mutated) and, once both are exhausted, the same multiset
					if (cerr == nil) != (merr == nil) || len(ce) != len(me) {
						t.Fail("readdir", sig+"readdir-page", fmt.Sprintf("ReadDir(%d) on a handle of %q: cache (%d entries, %v), source (%d entries, %v)", n, h.name, len(ce), cerr, len(me), merr))
					}
					if n <= 0 || cerr == io.EOF {
						sort.Strings(h.cents)
						sort.Strings(h.ments)
						if strings.Join(h.cents, ",") != strings.Join(h.ments, ",") {
							t.Fail("readdir", sig+"readdir-contents", fmt.Sprintf("paged ReadDir on a handle of %q delivered %v through the cache and %v from the source", h.name, h.cents, h.ments))
						}
					}
				}
			default: // Close
				cerr, merr := h.c.Close(), h.m.Close()
				t.Logf("%d h%d(%s).Close() -> cache %s source %s", i, hi, h.name, errClass(cerr), errClass(merr))
				hs = append(hs[:hi], hs[hi+1:]...)
				if (cerr == nil) != (merr == nil) {
					t.Fail("close", sig+"close", fmt.Sprintf("Close on %q: cache %v, source %v", h.name, cerr, merr))
				}
			}
		}
	}
	t.NonTrivial()
}

// ---- C11 ------------------------------------------------------------------------------------------------

func runC11(t *T) {
	defer beginTrial(t, true)()
	if t.C.Chance(1, 2) {
		cur.knobs["cacheCopyBuf"] = uint64([]int{512, 64, 300, 1000}[t.C.Draw(4)])
	}
	switch t.C.Weighted(3, 3, 2) {
	case 0:
		c11Fault(t)
	case 1:
		c11Concurrent(t)
	default:
		c11FaultSequence(t)
	}
}

// c11FaultSequence: several opens of one name in a row, each with its own (optional) fault on the source
// or on the cache store (which, in its minimal form, cannot remove a partial file); whenever an open
// succeeds it must deliver the complete bytes, and so must the fault-free opens at the end.
func c11FaultSequence(t *T) {
	c := t.C
	w := newCacheWorld(t, []int{2000, 513, 1024, 1500, 4096})
	var storeFS cacheStoreIface
	if w.storeMin {
		storeFS = newCapFS(w.store, []string{"OpenFile", "Mkdir"}).(cacheStoreIface)
	} else {
		storeFS = newCapFS(w.store, []string{"OpenFile", "Mkdir", "Remove"}).(cacheStoreIface)
	}
	cfs, err := cache.NewReadOnlyFS(newCapFS(w.src, nil), storeFS, cache.ReadOnlyOptions{})
	must(t, err)
	names := w.names()
	name := names[c.Draw(len(names))]
	want := w.files[name]
	rounds := 2 + c.Draw(4)
	t.Logf("mode=fault-sequence file=%s (%d bytes) minimal-store=%v rounds=%d", name, len(want), w.storeMin, rounds)
	faults := 0
	var history []string
	for r := 0; r < rounds+2; r++ {
		var target *capCore
		if r < rounds {
			switch c.Weighted(2, 3, 3) {
			case 1:
				target = w.src
			case 2:
				target = w.store
			}
		}
		for _, core := range []*capCore{w.src, w.store} {
			core.faultAt, core.fired, core.faultKind = -1, "", ""
		}
		if target != nil {
			target.faultAt = len(target.calls) + c.Draw(10)
		}
		f, err := cfs.Open(name)
		fired := ""
		if target != nil {
			fired = target.label + target.fired
			if target.fired != "" {
				faults++
			}
		}
		if err != nil {
			history = append(history, fmt.Sprintf("open%d(fault %q)=error", r, fired))
			t.Logf("open %d (fault fired %q) -> error %v", r, fired, err)
			continue
		}
		got, rerr := readAllFrom(f, 700)
		f.Close()
		history = append(history, fmt.Sprintf("open%d(fault %q)=%d bytes", r, fired, len(got)))
		t.Logf("open %d (fault fired %q) -> %d bytes (%v)", r, fired, len(got), rerr)
		if rerr == nil && !bytes.Equal(got, want) {
			t.Fail("partial-served", "C11:fault-sequence:open-serves-incomplete", fmt.Sprintf("open %d of %q succeeded and delivered %d of %d bytes; history: %v", r, name, len(got), len(want), history))
		}
	}
	if faults > 0 {
		t.Stat("probe:fault-sequence-with-faults")
		t.NonTrivial()
	}
}

// c11Fault: one fault somewhere inside the fill, then fault-free re-opens.
func c11Fault(t *T) {
	c := t.C
	w := newCacheWorld(t, []int{2000, 513, 1024, 1500, 4096, 1})
	w.retain, w.retDesc = nil, "always"
	// rebuild with retain-all (newCacheWorld drew a policy; C11 is about retained files)
	var storeFS cacheStoreIface
	if w.storeMin {
		storeFS = newCapFS(w.store, []string{"OpenFile", "Mkdir"}).(cacheStoreIface)
	} else {
		storeFS = newCapFS(w.store, []string{"OpenFile", "Mkdir", "Remove"}).(cacheStoreIface)
	}
	cfs, err := cache.NewReadOnlyFS(newCapFS(w.src, nil), storeFS, cache.ReadOnlyOptions{})
	must(t, err)
	names := w.names()
	name := names[c.Draw(len(names))]
	want := w.files[name]
	onSource := c.Chance(1, 2)
	target := w.store
	if onSource {
		target = w.src
	}
	// Stat (which opens the source once) happens before the fill proper; count calls from here
	at := c.Draw(12)
	target.faultAt = len(target.calls) + at
	t.Logf("mode=fault file=%s (%d bytes) minimal-store=%v fault at call +%d of the %s", name, len(want), w.storeMin, at, map[bool]string{true: "source", false: "cache store"}[onSource])
	f, openErr := cfs.Open(name)
	err = openErr
	fired := target.fired
	t.Logf("first Open -> %s; fault fired: %q; seam calls: src=%v store=%v", errClass(err), fired, w.src.calls, w.store.calls)
	target.faultAt = -1
	var got []byte
	if err == nil {
		got, err = readAllFrom(f, 700)
		f.Close()
		if fired != "" && err == nil && !bytes.Equal(got, want) {
			t.Fail("partial-served", "C11:fault="+fired+":first-open-serves-wrong-bytes", fmt.Sprintf("a %s failed during the fill of %q, the Open succeeded and delivered %d of %d bytes", fired, name, len(got), len(want)))
		}
	}
	if fired == "" {
		return // the drawn index lies beyond the fill: nothing was tested
	}
	rewindRefusal := false
	if onSource && fired == "file.Stat" && w.srcNoSeek {
		// a source handle without Seek: the helper that tries the final rewind asks the handle's Stat for the name in
		// its refusal. The copy is complete by then (every Read has happened); the rewind has a fallback
		for _, call := range w.src.calls[:w.src.faultedAt] {
			if call == "file.Read "+name {
				rewindRefusal = true
			}
		}
	}
	if err == nil && fired != "file.Close" && !(onSource && fired == "file.Seek") && !rewindRefusal {
		// every call of the fill matters except closing read handles and the final rewind of the source handle (which has a fallback)
		t.Fail("fault-not-reported", "C11:fault="+map[bool]string{true: "src.", false: "store."}[onSource]+fired+":open-returns-no-error", fmt.Sprintf("the %s call %s failed during the fill of %q, yet Open returned no error", map[bool]string{true: "source", false: "cache store"}[onSource], fired, name))
	}
	t.Stat("probe:fault-inside-fill")
	if hackpadfs.ErrNotExist != nil {
		if _, serr := hackpadfs.Stat(w.storeIn, name); serr == nil {
			if b, _ := hackpadfs.ReadFile(w.storeIn, name); len(b) < len(want) {
				t.Stat("probe:partial-file-left-in-cache-store")
			}
		}
	}
	// faults have stopped: every later open returns the complete bytes or an error
	for r := 0; r < 1+c.Draw(3); r++ {
		f, err := cfs.Open(name)
		if err != nil {
			t.Logf("re-open %d -> error %v", r, err)
			continue
		}
		got, rerr := readAllFrom(f, []int{700, 64, 5000}[c.Draw(3)])
		f.Close()
		t.Logf("re-open %d -> %d bytes (%v)", r, len(got), rerr)
		if rerr == nil && !bytes.Equal(got, want) {
			kind := "truncated"
			if len(got) >= len(want) {
				kind = "mixed"
			}
			t.Fail("partial-served", "C11:fault="+fired+":later-open-serves-"+kind, fmt.Sprintf("after a %s failed during the fill of %q (%d bytes), a later Open succeeded and delivered %d bytes: %q...", fired, name, len(want), len(got), clip(got)))
		}
	}
	t.NonTrivial()
}

// c11Concurrent: 2-4 tasks open the same uncached name (and a neighbour) under the scheduler.
func c11Concurrent(t *T) {
	c := t.C
	ntasks := 2 + c.Draw(3)
	withFault := c.Chance(1, 5)
	inBubble(t, 400000, func(s *Sched) {
		w := newCacheWorld(t, []int{1500, 513, 1024, 2000, 1})
		var storeFS cacheStoreIface
		if w.storeMin {
			storeFS = newCapFS(w.store, []string{"OpenFile", "Mkdir"}).(cacheStoreIface)
		} else {
			storeFS = newCapFS(w.store, []string{"OpenFile", "Mkdir", "Remove"}).(cacheStoreIface)
		}
		cfs, err := cache.NewReadOnlyFS(newCapFS(w.src, nil), storeFS, cache.ReadOnlyOptions{})
		must(t, err)
		names := w.names()
		hot := names[c.Draw(len(names))]
		if withFault {
			w.store.faultAt = c.Draw(10)
		}
		t.Logf("mode=concurrent tasks=%d hot=%s (%d bytes) minimal-store=%v fault=%v", ntasks, hot, len(w.files[hot]), w.storeMin, withFault)
		for i := 0; i < ntasks; i++ {
			i := i
			name := hot
			if c.Chance(1, 5) {
				name = names[c.Draw(len(names))]
			}
			s.Go(fmt.Sprintf("opener%d", i), func() {
				f, err := cfs.Open(name)
				if err != nil {
					t.Logf("opener%d Open(%q) -> error %v", i, name, err)
					return
				}
				got, rerr := readAllFrom(f, 600)
				f.Close()
				t.Logf("opener%d Open(%q) -> %d bytes (%v)", i, name, len(got), rerr)
				if rerr == nil && !bytes.Equal(got, w.files[name]) {
					t.Fail("partial-served", "C11:concurrent:incomplete-bytes", fmt.Sprintf("opener%d: Open(%q) succeeded and delivered %d bytes, the source holds %d", i, name, len(got), len(w.files[name])))
				}
			})
		}
		s.Run()
		if w.store.maxWriting > 1 {
			t.failNoPanic("two-copies", "C11:concurrent:two-copies-in-progress", fmt.Sprintf("the cache store saw %d write handles of one name open at the same time (calls: %v)", w.store.maxWriting, w.store.calls))
		}
	})
	t.NonTrivial()
}

func init() {
	Register(&Engine{
		Prop: "C10", Name: "cachesim", Run: runC10,
		Trials: map[string]int{"quick": 50000, "thorough": 500000},
		Rule:   "a drawn source tree on a real mem.FS (file sizes around the 512-byte copy buffer: 0,1,511,512,513,1024,1500,2000,4096), a drawn RetainData policy (always/never/by name/by size), a cache store that is a full mem.FS or one exposing only OpenFile+Mkdir (file handles exposing only Write), the source behind a counting wrapper that injects no error but may serve reads in legal odd shapes (half buffers, single bytes, last bytes together with io.EOF), the copy buffer size as a knob in half of the trials; one task issues 3-16 drawn Open/Stat/Read/Seek/ReadDir(n)/handle-Stat/Close calls on the cache, mirrored on handles opened directly on the source; judged: same outcome, names, kinds, sizes, modes, bytes, EOF; no further source Open/Read of a retained file after its first successful open; distinct = event-log hash One source in four has files that cannot seek (the cache must hand out a handle from its store); one trial in six starts with a fill that failed before the compared sequence; directory pages are scribbled over after use.",
		Components: map[string][]string{
			"real": {"cache.ReadOnlyFS, cache dir handle", "internal/pathlock", "mem.FS as source and as cache store", "package helpers (MkdirAll fallback on the minimal store)"},
			"stub": {"counting/read-shaping wrapper around the source", "capability mask around the cache store"},
		},
	})
	Register(&Engine{
		Prop: "C11", Name: "cachesim", Run: runC11,
		Trials: map[string]int{"quick": 6000, "thorough": 120000},
		Rule:   "fault mode: one fault at a drawn seam call index of the fill (source Open / each source Read; cache store MkdirAll steps, OpenFile(create), each Write - plain or after accepting a prefix -, Close) for files of 1..4096 bytes, then faults stop and the name is opened 1-3 more times; judged: a successful open always delivers the complete source bytes. concurrent mode: 2-4 tasks open the same uncached name (sometimes a neighbour) under the seeded scheduler with gates at every source and cache-store call (so the copy is paused at every chunk) and at the per-path lock, one fault in a fifth of these; judged: complete bytes for every successful open, never two write handles of one name open at once in the cache store, no deadlock; non-trivial = fault fired inside the fill / tasks completed; distinct = event-log hash",
		Components: map[string][]string{
			"real": {"cache.ReadOnlyFS", "internal/pathlock (real mutexes, lock gates)", "mem.FS source and cache store"},
			"stub": {"fault-injecting wrappers around source and cache store"},
		},
	})
}

// c11FaultProbe: a 2000-byte file, the cache store's third Write fails, then one more Open.
func c11FaultProbe(t *T) {
	defer beginTrial(t, false)()
	src, _ := mem.NewFS()
	data := uniqueData(1, 2000)
	must(t, src.Mkdir("d", 0755))
	must(t, hackpadfs.WriteFullFile(src, "d/f", data, 0644))
	storeIn, _ := mem.NewFS()
	store := &capCore{t: t, inner: storeIn, faultAt: -1, label: "store."}
	cfs, err := cache.NewReadOnlyFS(src, newCapFS(store, []string{"OpenFile", "Mkdir"}).(cacheStoreIface), cache.ReadOnlyOptions{})
	must(t, err)
	store.faultKind, store.faultAt = "file.Write", 2 // the third chunk
	if f, err := cfs.Open("d/f"); err == nil {
		f.Close()
		if store.fired != "" {
			t.Fail("fault-not-reported", "C11:fault=store."+store.fired+":open-returns-no-error", "Open returned nil")
		}
	}
	t.Logf("store calls: %v fired=%q", store.calls, store.fired)
	store.faultAt = -1
	f, err := cfs.Open("d/f")
	if err != nil {
		return
	}
	got, rerr := readAllFrom(f, 700)
	f.Close()
	if rerr == nil && !bytes.Equal(got, data) {
		t.Fail("partial-served", "C11:fault="+store.fired+":later-open-serves-truncated", fmt.Sprintf("the Open after a failed fill delivered %d of %d bytes", len(got), len(data)))
	}
}

func init() {
	RegisterProbe("c11-partial-after-failed-write", c11FaultProbe)
}
