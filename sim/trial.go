package sim

import (
	"fmt"
	"hash/fnv"
	"regexp"
	"sort"
	"strings"
)

// Violation is what a trial reports when the property does not hold.
type Violation struct {
	Property  string `json:"property"`
	Engine    string `json:"engine"`
	Kind      string `json:"kind"`
	Signature string `json:"signature"`
	Detail    string `json:"detail"`
}

// TrialResult crosses the worker -> driver pipe.
type TrialResult struct {
	Trial      uint64           `json:"trial"`
	Seed       uint64           `json:"seed"`
	Violation  *Violation       `json:"violation,omitempty"`
	KnownHit   string           `json:"known_hit,omitempty"`
	Choices    []uint32         `json:"choices,omitempty"`
	Trace      []string         `json:"trace,omitempty"`
	EventHash  string           `json:"event_hash"`
	NonTrivial bool             `json:"nontrivial"`
	Steps      int64            `json:"steps"`
	Stats      map[string]int64 `json:"stats,omitempty"`
	States     []uint64         `json:"states,omitempty"`
	Scheds     []uint64         `json:"scheds,omitempty"`
	Infra      string           `json:"infra,omitempty"` // harness trouble (never a violation)
	Exiting    bool             `json:"exiting,omitempty"`
}

type abortTrial struct{}

// T is the context of one trial.
type T struct {
	C        *Stream
	Prop     string
	Engine   string
	Tier     string
	keep     bool
	trace    []string
	evh      uint64
	evn      int
	stats    map[string]int64
	states   map[uint64]struct{}
	scheds   map[uint64]struct{}
	viol     *Violation
	known    string
	nontriv  bool
	steps    int64
	active   map[string]*KnownFinding // active known findings of this property
	avoid    map[string]bool
	infra    string
	ProbeRun bool // running a known-finding probe: avoidance and known-matching are off
}

func newT(c *Stream, prop, tier string, keep bool, active []*KnownFinding) *T {
	t := &T{C: c, Prop: prop, Tier: tier, keep: keep, stats: map[string]int64{},
		states: map[uint64]struct{}{}, scheds: map[uint64]struct{}{}, evh: 14695981039346656037,
		active: map[string]*KnownFinding{}, avoid: map[string]bool{}}
	for _, k := range active {
		t.active[k.ID] = k
		for _, a := range k.Avoid {
			t.avoid[a] = true
		}
	}
	return t
}

// Logf appends one line to the event log. It never draws and never reads a clock.
var scratchNameRE = regexp.MustCompile(`verif-[0-9]+-[0-9]+`)

func (t *T) Logf(format string, a ...interface{}) {
	var s string
	if len(a) == 0 {
		s = format
	} else {
		s = fmt.Sprintf(format, a...)
	}
	if strings.Contains(s, "verif-") {
		// scratch directory names carry the worker's process id: not part of the event
		s = scratchNameRE.ReplaceAllString(s, "verif-SCRATCH")
	}
	for i := 0; i < len(s); i++ {
		t.evh = (t.evh ^ uint64(s[i])) * 1099511628211
	}
	t.evh = (t.evh ^ '\n') * 1099511628211
	t.evn++
	if t.keep && len(t.trace) < 4000 {
		t.trace = append(t.trace, s)
	}
}

func (t *T) Stat(key string)             { t.stats[key]++ }
func (t *T) StatAdd(key string, n int64) { t.stats[key] += n }
func (t *T) NonTrivial()                 { t.nontriv = true }
func (t *T) Step()                       { t.steps++ }

func hashStr(s string) uint64 {
	h := fnv.New64a()
	h.Write([]byte(s))
	return h.Sum64()
}

// State records a distinct-state hash (bounded per trial).
func (t *T) State(s string) {
	if len(t.states) < 256 {
		t.states[hashStr(s)] = struct{}{}
	}
}

func (t *T) Sched(h uint64) {
	if len(t.scheds) < 64 {
		t.scheds[h] = struct{}{}
	}
}

// Avoid reports whether an active known finding asks the generator to stay out of a region.
func (t *T) Avoid(tag string) bool {
	if t.ProbeRun {
		return false
	}
	if t.avoid[tag] {
		t.stats["known_avoided:"+tag]++
		return true
	}
	return false
}

func sigMatch(pattern, sig string) bool {
	if strings.Contains(pattern, " || ") {
		for _, p := range strings.Split(pattern, " || ") {
			if sigMatch(p, sig) {
				return true
			}
		}
		return false
	}
	if !strings.Contains(pattern, "*") {
		return pattern == sig
	}
	parts := strings.Split(pattern, "*")
	if !strings.HasPrefix(sig, parts[0]) {
		return false
	}
	sig = sig[len(parts[0]):]
	for i := 1; i < len(parts); i++ {
		p := parts[i]
		if i == len(parts)-1 {
			return strings.HasSuffix(sig, p)
		}
		j := strings.Index(sig, p)
		if j < 0 {
			return false
		}
		sig = sig[j+len(p):]
	}
	return true
}

// Fail records a violation (or a hit on an active known finding) and aborts the trial.
func (t *T) Fail(kind, signature, detail string) {
	t.failNoPanic(kind, signature, detail)
	panic(abortTrial{})
}

func (t *T) failNoPanic(kind, signature, detail string) {
	if t.viol != nil || t.known != "" {
		return
	}
	if !t.ProbeRun {
		for id, k := range t.active {
			if sigMatch(k.Signature, signature) {
				t.known = id
				t.Logf("KNOWN-HIT %s sig=%s", id, signature)
				return
			}
		}
	}
	t.viol = &Violation{Property: t.Prop, Engine: t.Engine, Kind: kind, Signature: signature, Detail: detail}
	t.Logf("VIOLATION kind=%s sig=%s :: %s", kind, signature, detail)
}

// Infra marks harness trouble; aborts the trial; never a violation.
func (t *T) Infra(format string, a ...interface{}) {
	if t.infra == "" {
		t.infra = fmt.Sprintf(format, a...)
	}
	panic(abortTrial{})
}

func (t *T) Failed() bool { return t.viol != nil || t.known != "" || t.infra != "" }

func (t *T) result(trial, seed uint64) *TrialResult {
	r := &TrialResult{Trial: trial, Seed: seed, Violation: t.viol, KnownHit: t.known,
		EventHash: fmt.Sprintf("%016x/%d", t.evh, t.evn), NonTrivial: t.nontriv, Steps: t.steps,
		Stats: t.stats, Infra: t.infra}
	if t.keep {
		r.Trace = t.trace
	}
	for h := range t.states {
		r.States = append(r.States, h)
	}
	sort.Slice(r.States, func(i, j int) bool { return r.States[i] < r.States[j] })
	for h := range t.scheds {
		r.Scheds = append(r.Scheds, h)
	}
	sort.Slice(r.Scheds, func(i, j int) bool { return r.Scheds[i] < r.Scheds[j] })
	return r
}

// runGuarded runs fn, turning abortTrial panics into a normal return and any other panic of the
// harness's own goroutine into a violation of kind "panic" (the library must not panic).
func (t *T) runGuarded(fn func()) {
	defer func() {
		if r := recover(); r != nil {
			if _, ok := r.(abortTrial); ok {
				return
			}
			t.failNoPanic("panic", "panic:"+panicClass(r), fmt.Sprintf("panic: %v\n%s", r, shortStack()))
		}
	}()
	fn()
}

// Engine is a property's simulated check.
type Engine struct {
	Prop       string
	Name       string
	Run        func(t *T)
	Trials     map[string]int // per tier
	Components map[string][]string
	Rule       string
	Level      string
	// Aux is an extra phase run by the driver after the search (returns VIOLATION lines and evidence notes).
	Aux       func(d *driver) ([]string, map[string]interface{})
	AuxReplay func(d *driver, rf *replayFile, path string) int
	// Custom replaces the seeded search altogether (C20: enumeration of a fixed catalogue).
	Custom func(d *driver) int
	// Probes: named hand-written scenarios for known findings (stable against generator changes)
}

var engines = map[string]*Engine{}

func Register(e *Engine) { engines[e.Prop] = e }

// Probes are hand-written minimal scenarios, one per known finding / fixed defect. A probe runs
// with avoidance off and must end in t.Fail with the finding's signature while the defect exists.
var probes = map[string]func(t *T){}

func RegisterProbe(name string, fn func(t *T)) { probes[name] = fn }
