package sim

import (
	"os"
	"testing"
)

func TestMain(m *testing.M) {
	switch os.Getenv("VERIF_ROLE") {
	case "driver":
		driverMain()
		return
	case "worker", "race":
		os.Exit(m.Run())
	}
	os.Exit(m.Run())
}

// TestWorker serves trial requests from the driver (stdin -> fd 3).
func TestWorker(t *testing.T) {
	if os.Getenv("VERIF_ROLE") != "worker" {
		t.Skip("worker role only")
	}
	workerLoop(t)
}

// TestRaceFree is the auxiliary free-running pass of C15 (only meaningful in the -race build).
func TestRaceFree(t *testing.T) {
	if os.Getenv("VERIF_ROLE") != "race" {
		t.Skip("race role only")
	}
	raceFreeRun(uint64(envInt("VERIF_RACE_SEED", 1)), envInt("VERIF_RACE_PROGRAMS", 100), envInt("VERIF_RACE_REPS", 20))
}
