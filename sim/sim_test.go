package sim

import (
	"os"
	"testing"
)

func TestMain(m *testing.M) {
	switch os.Getenv("VERIF_ROLE") {
	case "driver":
		driverMain()
		return
	case "worker":
		os.Exit(m.Run())
	}
	os.Exit(m.Run())
}

// TestWorker serves trial requests from the driver (stdin -> fd 3).
func TestWorker(t *testing.T) {
	if os.Getenv("VERIF_ROLE") != "worker" {
		t.Skip("worker role only")
	}
	workerLoop(t)
}
