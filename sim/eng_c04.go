package sim

import (
	"archive/tar"
	"bytes"
	"context"
	"errors"
	"fmt"
	"strings"
	"time"

	"github.com/hack-pad/hackpadfs"
	htar "github.com/hack-pad/hackpadfs/tar"
)

// mutateInvalid derives an invalid name from a valid one by the boundary mutations of ValidPath.
func mutateInvalid(t *T, valid string) string {
	c := t.C
	parts := strings.Split(valid, "/")
	if valid == "." {
		parts = []string{"a"}
	}
	switch c.Draw(9) {
	case 0:
		return ""
	case 1:
		return "/" + strings.Join(parts, "/")
	case 2:
		return strings.Join(parts, "/") + "/"
	case 3: // empty element
		i := c.Draw(len(parts) + 1)
		p := append(append(append([]string{}, parts[:i]...), ""), parts[i:]...)
		if len(p) == 1 {
			return "//"
		}
		return strings.Join(p, "/")
	case 4, 5: // '.' or '..' element in every position
		el := []string{".", ".."}[c.Draw(2)]
		i := c.Draw(len(parts) + 1)
		p := append(append(append([]string{}, parts[:i]...), el), parts[i:]...)
		s := strings.Join(p, "/")
		if s == "." {
			return "./."
		}
		return s
	case 6: // replace an element by '..'
		i := c.Draw(len(parts))
		p := append([]string{}, parts...)
		p[i] = ".."
		return strings.Join(p, "/")
	case 7: // invalid UTF-8 inside an element
		i := c.Draw(len(parts))
		p := append([]string{}, parts...)
		p[i] = p[i] + "\xff"
		return strings.Join(p, "/")
	default:
		return "\xc3\x28"
	}
}

var c04Helpers = []string{"Open", "Stat", "Lstat", "LstatOrStat", "ReadDir", "ReadFile", "OpenFile", "Create", "Mkdir", "MkdirAll", "WriteFullFile", "Remove", "RemoveAll", "Chmod", "Chown", "Chtimes", "RenameOld", "RenameNew", "SymlinkOld", "SymlinkNew", "Sub"}

// callHelper runs the named helper with 'name' in the fuzzed position and 'other' elsewhere.
func callHelper(fs hackpadfs.FS, h, name, other string, flag int) error {
	switch h {
	case "Open":
		f, err := fs.Open(name)
		if err == nil {
			f.Close()
		}
		return err
	case "Stat":
		_, err := hackpadfs.Stat(fs, name)
		return err
	case "Lstat":
		_, err := hackpadfs.Lstat(fs, name)
		return err
	case "LstatOrStat":
		_, err := hackpadfs.LstatOrStat(fs, name)
		return err
	case "ReadDir":
		_, err := hackpadfs.ReadDir(fs, name)
		return err
	case "ReadFile":
		_, err := hackpadfs.ReadFile(fs, name)
		return err
	case "OpenFile":
		f, err := hackpadfs.OpenFile(fs, name, flag, 0644)
		if err == nil {
			f.Close()
		}
		return err
	case "Create":
		f, err := hackpadfs.Create(fs, name)
		if err == nil {
			f.Close()
		}
		return err
	case "Mkdir":
		return hackpadfs.Mkdir(fs, name, 0755)
	case "MkdirAll":
		return hackpadfs.MkdirAll(fs, name, 0755)
	case "WriteFullFile":
		return hackpadfs.WriteFullFile(fs, name, []byte("fuzz"), 0644)
	case "Remove":
		return hackpadfs.Remove(fs, name)
	case "RemoveAll":
		return hackpadfs.RemoveAll(fs, name)
	case "Chmod":
		return hackpadfs.Chmod(fs, name, 0600)
	case "Chown":
		return hackpadfs.Chown(fs, name, 0, 0)
	case "Chtimes":
		return hackpadfs.Chtimes(fs, name, time.Unix(1e9, 0), time.Unix(1e9, 0))
	case "RenameOld":
		return hackpadfs.Rename(fs, name, other)
	case "RenameNew":
		return hackpadfs.Rename(fs, other, name)
	case "SymlinkOld":
		return hackpadfs.Symlink(fs, name, other)
	case "SymlinkNew":
		return hackpadfs.Symlink(fs, other, name)
	case "Sub":
		_, err := hackpadfs.Sub(fs, name)
		return err
	}
	panic("unknown helper " + h)
}

func partsSnapshot(ls *layerStack) string {
	var b strings.Builder
	for i, p := range append([]hackpadfs.FS{ls.fs}, ls.parts...) {
		fmt.Fprintf(&b, "== part %d ==\n%s\n", i, takeSnapshot(p, snapOpts{}).Text)
	}
	return b.String()
}

func runC04(t *T) {
	c := t.C
	defer beginTrial(t, true)()
	ref, refDir, cleanup := osTwin(t)
	defer cleanup()
	_ = refDir
	k := c.Draw(lsCount + 2)
	var ls *layerStack
	oddTar := false
	if k == lsCount+1 {
		// a tar FS unpacked from an archive whose entry names contain backslash, colon, space, multi-byte
		// characters and a leading "..": ordinary name bytes, never separators (the converse half)
		var buf bytes.Buffer
		w := tar.NewWriter(&buf)
		must(t, w.WriteHeader(&tar.Header{Name: "a:b/", Typeflag: tar.TypeDir, Mode: 0755}))
		must(t, hackpadfs.Mkdir(ref, "a:b", 0755))
		for _, n := range []string{`a\b`, "a:b/ä b", "..a", `a:b/a\b`} {
			data := []byte("data of " + n)
			must(t, w.WriteHeader(&tar.Header{Name: n, Typeflag: tar.TypeReg, Mode: 0644, Size: int64(len(data))}))
			_, err := w.Write(data)
			must(t, err)
			must(t, hackpadfs.WriteFullFile(ref, n, data, 0644))
		}
		must(t, w.Close())
		r, err := htar.NewReaderFS(context.Background(), bytes.NewReader(buf.Bytes()), htar.ReaderFSOptions{})
		must(t, err)
		<-r.Done()
		if uerr := r.UnarchiveErr(); uerr != nil {
			t.Fail("odd-name", "C04:tar:odd-name-archive-refused", fmt.Sprintf("unpacking an archive whose names contain backslash, colon, space and a leading '..' failed: %v", uerr))
		}
		ls = &layerStack{name: "tar (odd entry names)", family: "tar", fs: r, readOnly: true, cleanup: func() {}}
		oddTar = true
		if sutSnap, refSnap := takeSnapshot(r, snapOpts{NoPerm: true}), takeSnapshot(ref, snapOpts{NoPerm: true}); sutSnap.Text != refSnap.Text {
			t.Fail("odd-name", "C04:tar:odd-name-tree-differs", fmt.Sprintf("the tar FS does not show the archive's entries under their names (backslash, colon, space are ordinary name bytes):\n%s", diffText(sutSnap, refSnap, "tar", "os ")))
		}
	} else if k == lsCount {
		// a tar FS whose unpacking failed: invalid names are still invalid
		data := fixtureTar(t)
		r, err := htar.NewReaderFS(context.Background(), bytes.NewReader(data[:len(data)/2+c.Draw(300)]), htar.ReaderFSOptions{})
		must(t, err)
		<-r.Done()
		ls = &layerStack{name: "tar (unpacking failed)", family: "tar-failed", fs: r, alpha: []string{"d", "f", "e", "top"}, readOnly: true, cleanup: func() {}}
	} else {
		ls = buildLayerStack(t, k, ref)
	}
	defer ls.cleanup()
	odd := (c.Chance(1, 3) && !ls.readOnly && len(ls.mounts) == 0) || oddTar
	if odd {
		ls.alpha = []string{"a", `a\b`, "a:b", "ä b", "..a"}
	}
	g := newFsGen(t, ls.alpha, 3)
	refSnap := takeSnapshot(ref, snapOpts{NoPerm: true})
	g.observe(refSnap)
	n := 2 + c.Draw(16)
	t.Logf("stack=%s steps=%d odd-names=%v", ls.name, n, odd)
	fuzzed := 0
	for i := 0; i < n; i++ {
		if c.Chance(1, 2) {
			// fuzz step: invalid name in one argument position
			h := c04Helpers[c.Draw(len(c04Helpers))]
			if ls.family == "os" && strings.HasPrefix(h, "Symlink") {
				continue
			}
			name := mutateInvalid(t, g.path())
			other := g.path()
			flag := g.flags()
			if hackpadfs.ValidPath(name) {
				t.Infra("mutateInvalid produced a valid name %q", name)
			}
			before := partsSnapshot(ls)
			var osBefore string
			if ls.family == "os" {
				osBefore = takeSnapshot(ls.parts[0], snapOpts{}).Text
			}
			err := callHelper(ls.fs, h, name, other, flag)
			t.Logf("%d fuzz %s(%q | other=%q) -> %s", i, h, name, other, errClass(err))
			sig := "C04:" + ls.family + ":" + h
			if err == nil {
				t.Fail("accepted", sig+":accepted", fmt.Sprintf("%s with the invalid name %q (other %q) succeeded on %s", h, name, other, ls.name))
			}
			if !errors.Is(err, hackpadfs.ErrInvalid) {
				unsupported := errors.Is(err, hackpadfs.ErrNotImplemented) &&
					errors.Is(callHelper(ls.fs, h, "zq/zq", "zq/zr", flag), hackpadfs.ErrNotImplemented)
				if !unsupported {
					t.Fail("wrong-error", sig+":"+errClass(err), fmt.Sprintf("%s with the invalid name %q (other %q) on %s failed with %v, which does not match ErrInvalid", h, name, other, ls.name, err))
				}
			}
			if after := partsSnapshot(ls); after != before {
				t.Fail("changed", sig+":changed", fmt.Sprintf("%s with the invalid name %q (other %q) on %s changed a participating file system:\nbefore:\n%s\nafter:\n%s", h, name, other, ls.name, before, after))
			}
			if ls.family == "os" && takeSnapshot(ls.parts[0], snapOpts{}).Text != osBefore {
				t.Fail("changed", sig+":os-dir-changed", "the scratch OS directory changed")
			}
			fuzzed++
			continue
		}
		// ordinary step, mirrored on the os twin, to reach arbitrary states (and for the converse)
		if ls.family == "tar-failed" {
			continue
		}
		o := g.next()
		if ls.readOnly && o.Mutating() {
			continue
		}
		if (o.Kind == "Remove" || o.Kind == "RemoveAll" || o.Kind == "Rename") && (o.P == "." || o.Q == ".") {
			continue
		}
		if o.Kind == "ReadFile" && isDirIn(refSnap, o.P) && t.Avoid("readfile-of-directory") {
			continue
		}
		if c05Avoid(t, ls, o, refSnap) {
			continue
		}
		got := applyOp(ls.fs, o)
		if errors.Is(got.Err, hackpadfs.ErrNotImplemented) {
			continue
		}
		want := applyOp(ref, o)
		t.Logf("%d %s -> sut=%s os=%s", i, o, errClass(got.Err), errClass(want.Err))
		if errors.Is(got.Err, hackpadfs.ErrInvalid) && !errors.Is(want.Err, hackpadfs.ErrInvalid) {
			t.Fail("valid-refused", "C04:"+ls.family+":valid-name-refused:"+o.Kind, fmt.Sprintf("%s with valid names on %s failed with %v (ErrInvalid); os: %v", o, ls.name, got.Err, want.Err))
		}
		if (got.Err == nil) != (want.Err == nil) {
			if oddTar && !(o.Kind == "ReadFile" && isDirIn(refSnap, o.P)) { // reading a directory as a file: C01's open finding, not a matter of names
				t.Fail("odd-name", "C04:tar:odd-name-outcome:"+o.Kind, fmt.Sprintf("%s on %s: %v; os with the same entries: %v", o, ls.name, got.Err, want.Err))
			}
			break // C01's business
		}
		if o.Mutating() {
			refSnap = takeSnapshot(ref, snapOpts{NoPerm: true})
			sutSnap := takeSnapshot(ls.fs, snapOpts{NoPerm: true})
			if refSnap.Text != sutSnap.Text {
				if odd {
					t.Fail("odd-name", "C04:"+ls.family+":odd-name-tree-differs", fmt.Sprintf("after %s on %s (names with backslash/colon/space are ordinary name bytes) the trees differ:\n%s", o, ls.name, diffText(sutSnap, refSnap, "sut", "os ")))
				}
				break
			}
			g.observe(refSnap)
			t.State(refSnap.Text)
		}
	}
	if fuzzed > 0 {
		t.NonTrivial()
		t.StatAdd("fuzz_steps", int64(fuzzed))
	}
}

// c04Probe: helper h with an invalid name on stack k.
func c04Probe(k int, h, name, other string) func(t *T) {
	return func(t *T) {
		defer beginTrial(t, false)()
		ref, _, cleanup := osTwin(t)
		defer cleanup()
		ls := buildLayerStack(t, k, ref)
		defer ls.cleanup()
		before := partsSnapshot(ls)
		err := callHelper(ls.fs, h, name, other, hackpadfs.FlagReadOnly)
		sig := "C04:" + ls.family + ":" + h
		if err == nil {
			t.Fail("accepted", sig+":accepted", fmt.Sprintf("%s(%q) succeeded", h, name))
		}
		if !errors.Is(err, hackpadfs.ErrInvalid) {
			t.Fail("wrong-error", sig+":"+errClass(err), fmt.Sprintf("%s(%q) failed with %v", h, name, err))
		}
		if partsSnapshot(ls) != before {
			t.Fail("changed", sig+":changed", "state changed")
		}
	}
}

func init() {
	RegisterProbe("c04-mount-trailing-slash", c04Probe(lsMountBare, "Stat", "m/", "a"))
	RegisterProbe("c04-mem-rename-invalid-old", c04Probe(lsMem, "RenameOld", "a/../b", "c"))
	Register(&Engine{
		Prop: "C04", Name: "fsdiff/name-fuzz", Run: runC04,
		Trials: map[string]int{"quick": 30000, "thorough": 300000},
		Rule:   "histories (2-17 steps) over a drawn layer stack (the twelve of C05: mem, keyvalue, mount bare/wrapped, four Sub shapes, os.FS under 1/3 Sub roots, cache, tar); half of the steps call one of 21 helpers/FS methods with an invalid name (derived from a valid path by the ValidPath boundary mutations) in one argument position and are judged: error matches ErrInvalid (ErrNotImplemented only if the same helper is unsupported for valid names), every participating FS and the scratch OS directory unchanged; the other steps are ordinary operations mirrored on an os twin, one third of the trials over an alphabet of odd but valid names (backslash, colon, space, multi-byte, '..a') for the converse; non-trivial = at least one fuzz step judged; distinct = event-log hash",
		Components: map[string][]string{
			"real": {"ValidPath gates in keyvalue, sub.go, fs.go helpers, mount, cache, tar, os/path.go", "all FS implementations"},
			"stub": {"SimStore (keyvalue stack)"},
		},
	})
}
