package sim

import (
	"bytes"
	"context"
	"errors"
	"fmt"
	"io"
	"strings"

	"github.com/hack-pad/hackpadfs"
	"github.com/hack-pad/hackpadfs/keyvalue"
)

// storesim (C14): histories on keyvalue.FS over a store that fails one call.

type c14Stack struct {
	name string
	fs   hackpadfs.FS
	plan *faultPlan
	sim  *SimStore
	// lookup returns what the store itself holds for a path: exists, isDir, bytes
	lookup func(p string) (bool, bool, []byte)
	// attrs returns the permission bits and the modification time (Unix seconds) the store holds for a path
	attrs func(p string) (hackpadfs.FileMode, int64)
}

func c14Build(t *T, kind int, plan *faultPlan) *c14Stack {
	switch kind {
	case 0, 1:
		st := newSimStore(t, kind == 1)
		st.permute = true
		st.plan = plan
		fs, err := keyvalue.NewFS(st)
		must(t, err)
		name := "keyvalue over plain SimStore (sharing), serial fallback"
		if kind == 1 {
			name = "keyvalue over plain SimStore (copying), serial fallback"
		}
		return &c14Stack{name: name, fs: fs, plan: plan, sim: st, lookup: func(p string) (bool, bool, []byte) {
			r, ok := st.recs[p]
			if !ok {
				return false, false, nil
			}
			if r.mode.IsDir() {
				return true, true, nil
			}
			return true, false, r.data.Bytes()
		}, attrs: func(p string) (hackpadfs.FileMode, int64) {
			r, ok := st.recs[p]
			if !ok {
				return 0, 0
			}
			return r.mode.Perm(), r.modTime.Unix()
		}}
	default:
		fs, g := newGatedMemFS(t, plan)
		return &c14Stack{name: "keyvalue over the real in-memory TransactionStore", fs: fs, plan: plan, lookup: func(p string) (bool, bool, []byte) {
			r, err := g.inner.Get(context.Background(), p)
			if err != nil {
				return false, false, nil
			}
			if r.Mode().IsDir() {
				return true, true, nil
			}
			d, err := r.Data()
			if err != nil {
				return true, false, nil
			}
			return true, false, d.Bytes()
		}, attrs: func(p string) (hackpadfs.FileMode, int64) {
			r, err := g.inner.Get(context.Background(), p)
			if err != nil {
				return 0, 0
			}
			return r.Mode().Perm(), r.ModTime().Unix()
		}}
	}
}

// resultFailed reports whether an execCOp result string denotes an error return.
func resultFailed(o cOp, res string) bool {
	switch o.H {
	case "", "HOpen", "HTruncate", "HClose", "HStat", "HChmod", "HSync":
		return !strings.HasPrefix(res, "ok") && res != "nohandle"
	case "HWrite", "HWriteAt", "HSeek":
		return !strings.HasSuffix(res, " ok") && res != "nohandle"
	case "HRead", "HReadAt":
		return !(strings.HasSuffix(res, " ok") || strings.HasSuffix(res, " EOF")) && res != "nohandle"
	case "HReadDir":
		return !(strings.HasSuffix(res, " ok") || strings.HasSuffix(res, " EOF")) && res != "nohandle"
	}
	return false
}

// storeView renders what the store holds, over the candidate paths.
func storeView(st *c14Stack, cands []string) string {
	var b strings.Builder
	for _, p := range cands {
		ok, dir, data := st.lookup(p)
		if !ok {
			continue
		}
		// permission bits always; the modification time where a Chtimes of the history set it (those times are
		// 1e9 + step; everything else is "when it was made" on the bubble's clock, which starts in the year 2000)
		perm, mtime := st.attrs(p)
		when := ""
		if mtime >= 1e9 && mtime < 1e9+100000 {
			when = fmt.Sprint(" mtime=", mtime)
		}
		if dir {
			fmt.Fprintf(&b, "%s d %04o%s\n", p, perm, when)
		} else {
			fmt.Fprintf(&b, "%s f %d %x %04o%s\n", p, len(data), hashStr(string(data)), perm, when)
		}
	}
	return b.String()
}

// freshLookup checks that a fresh look-up through the FS shows exactly what the store holds.
func freshLookup(st *c14Stack, cands []string) string {
	for _, p := range cands {
		ok, dir, data := st.lookup(p)
		info, err := hackpadfs.Stat(st.fs, p)
		switch {
		case !ok && err == nil:
			return fmt.Sprintf("Stat(%q) succeeds but the store holds no record for it", p)
		case !ok && !errors.Is(err, hackpadfs.ErrNotExist) && !errors.Is(err, hackpadfs.ErrNotDir):
			return fmt.Sprintf("Stat(%q) of a path the store does not hold fails with %v, not ErrNotExist", p, err)
		case ok && err != nil:
			return fmt.Sprintf("the store holds a record for %q but Stat fails: %v", p, err)
		case ok && info.IsDir() != dir:
			return fmt.Sprintf("%q: store says dir=%v, Stat says dir=%v", p, dir, info.IsDir())
		}
		if ok && !dir {
			b, err := hackpadfs.ReadFile(st.fs, p)
			if err != nil {
				return fmt.Sprintf("the store holds the file %q but ReadFile fails: %v", p, err)
			}
			if !bytes.Equal(b, data) {
				return fmt.Sprintf("ReadFile(%q) returns %d bytes %q, the store holds %d bytes %q", p, len(b), clip(b), len(data), clip(data))
			}
		}
	}
	return ""
}

func genC14Op(t *T, names []string, step int) cOp {
	c := t.C
	p := names[c.Draw(len(names))]
	switch c.Weighted(4, 4, 3, 3, 2, 2, 2, 2, 2, 2, 3, 3, 2, 1, 1, 1, 2) {
	case 16:
		return cOp{H: "HChmod", Op: Op{Perm: []hackpadfs.FileMode{0600, 0640}[c.Draw(2)]}}
	case 0:
		return cOp{Op: Op{Kind: "Mkdir", P: p, Perm: 0755}}
	case 1:
		return cOp{Op: Op{Kind: "WriteFullFile", P: p, Perm: 0644, Data: uniqueData(step, 5)}}
	case 2:
		return cOp{Op: Op{Kind: "Remove", P: p}}
	case 3:
		return cOp{Op: Op{Kind: "Rename", P: p, Q: names[c.Draw(len(names))]}}
	case 4:
		return cOp{Op: Op{Kind: "Stat", P: p}}
	case 5:
		return cOp{Op: Op{Kind: "ReadFile", P: p}}
	case 6:
		return cOp{Op: Op{Kind: "ReadDir", P: []string{".", p}[c.Draw(2)]}}
	case 7:
		return cOp{Op: Op{Kind: "MkdirAll", P: p, Perm: 0700}}
	case 8:
		return cOp{Op: Op{Kind: "Chmod", P: p, Perm: 0600}}
	case 9:
		return cOp{Op: Op{Kind: "RemoveAll", P: p}}
	case 10:
		flag := []int{hackpadfs.FlagReadWrite | hackpadfs.FlagCreate, hackpadfs.FlagReadWrite, hackpadfs.FlagWriteOnly | hackpadfs.FlagCreate | hackpadfs.FlagTruncate, hackpadfs.FlagReadWrite | hackpadfs.FlagAppend}[c.Draw(4)]
		return cOp{H: "HOpen", Op: Op{P: p, Flag: flag}}
	case 11:
		return cOp{H: "HWrite", Op: Op{Data: uniqueData(step, []int{3, 9, 1}[c.Draw(3)])}}
	case 12:
		return cOp{H: "HRead", N: []int{4, 16}[c.Draw(2)]}
	case 13:
		return cOp{H: "HTruncate", N: c.Draw(6)}
	case 14:
		return cOp{Op: Op{Kind: "Chtimes", P: p, Mtime: 1e9 + int64(step)}}
	default:
		return cOp{H: "HClose"}
	}
}

func runC14(t *T) {
	c := t.C
	defer beginTrial(t, true)()
	kind := c.Draw(3)
	faultKind := []string{"", "Set", "Get", "Data", "ReadDirNames", "Transaction", "Commit"}[c.Weighted(2, 4, 3, 3, 2, 1, 2)]
	if faultKind == "Commit" && kind != 2 {
		faultKind = "Set" // only the transaction store has a commit to refuse
	}
	plan := &faultPlan{t: t, kind: faultKind}
	if faultKind == "Get" && c.Chance(1, 4) {
		// the store answers "does not exist" for a record it holds (a transient NoSuchKey): nothing the library
		// makes of that one answer is held against it, but it must not outlive the call
		plan.getErr = hackpadfs.ErrNotExist
	}
	plan.at = c.Draw(map[string]int{"": 30, "Set": 6, "Get": 20, "Data": 3, "ReadDirNames": 3, "Transaction": 20, "Commit": 20}[faultKind])
	ambig := c.Chance(1, 4)
	names := []string{"a", "b", "a/c", "d"}
	n := 2 + c.Draw(10)
	ops := make([]cOp, n)
	handleHeavy := c.Chance(1, 3) // open a handle early and mostly do I/O through it
	for i := range ops {
		ops[i] = genC14Op(t, names, i+1)
		if handleHeavy {
			switch {
			case i == 0:
				ops[i] = cOp{H: "HOpen", Op: Op{P: []string{"b", "a", "d"}[c.Draw(3)], Flag: []int{hackpadfs.FlagReadWrite, hackpadfs.FlagReadWrite | hackpadfs.FlagCreate, hackpadfs.FlagWriteOnly, hackpadfs.FlagReadWrite | hackpadfs.FlagAppend}[c.Draw(4)]}}
			case c.Chance(2, 3):
				switch c.Draw(4) {
				case 0, 1:
					ops[i] = cOp{H: "HWrite", Op: Op{Data: uniqueData(i+1, []int{3, 9, 1}[c.Draw(3)])}}
				case 2:
					ops[i] = cOp{H: "HRead", N: []int{4, 16}[c.Draw(2)]}
				default:
					ops[i] = cOp{H: "HTruncate", N: c.Draw(6)}
				}
			}
		}
	}
	cands := append([]string{"."}, candidatePaths([]string{"a", "b", "c", "d"}, 2)...)
	inBubble(t, 50000, func(s *Sched) {
		s.Go("client", func() {
			st := c14Build(t, kind, plan)
			twin := c14Build(t, kind, nil)
			t.Logf("stack=%s fault-kind=%q at-store-call=%d ambiguous-set=%v", st.name, faultKind, plan.at, ambig)
			hs, ht := &taskState{}, &taskState{}
			// a little fault-free prefix so that there is state (and an open handle) to damage
			plan.armed = false
			for _, o := range []cOp{{Op: Op{Kind: "Mkdir", P: "a", Perm: 0755}}, {Op: Op{Kind: "WriteFullFile", P: "b", Perm: 0644, Data: []byte("bbbbbb")}}} {
				if c.Chance(1, 2) {
					execCOp(st.fs, hs, o)
					execCOp(twin.fs, ht, o)
				}
			}
			plan.armed = true
			plan.calls = 0
			if sim, ok := kvSimStore(st); ok {
				sim.ambig = ambig
			}
			faulted := false
			// the open read-write handle of the faulted side: its path and whether nothing has touched that path since
			openPath, openRDWR, undisturbed := "", false, false
			for i, o := range ops {
				firedBefore := plan.fired
				var res string
				func() {
					defer func() {
						if r := recover(); r != nil {
							if t.IsAbort(r) {
								panic(r)
							}
							fk := "before-fault"
							if plan.fired > 0 {
								fk = plan.firedAt
							}
							t.Fail("panic", "C14:panic:"+opName(o)+":"+strings.Fields(fk + " x")[0], fmt.Sprintf("step %d %s on %s panicked (store fault: %s): %v\n%s", i, o, st.name, fk, r, shortStack()))
						}
					}()
					res = execCOp(st.fs, hs, o)
				}()
				want := ""
				if !faulted {
					want = execCOp(twin.fs, ht, o)
				}
				t.Logf("%d %s -> %s (twin %s)", i, o, res, want)
				switch {
				case o.H == "HOpen":
					openPath, openRDWR, undisturbed = "", false, false
					if !resultFailed(o, res) {
						openPath, openRDWR, undisturbed = o.P, o.Flag&3 == hackpadfs.FlagReadWrite && o.Flag&hackpadfs.FlagAppend == 0, true
					}
				case o.H == "HClose":
					openPath = ""
				case o.H == "" && o.Mutating() && openPath != "" && (related(o.P, openPath) || (o.Kind == "Rename" && related(o.Q, openPath))):
					undisturbed = false
				}
				// (after the lie "does not exist" only a Write is judged: the call that was lied to may rightly have taken the
				// file for unlinked and kept its change to itself -- any outcome of that one call is accepted -- and a later
				// Truncate to the length the handle already has is a success with nothing to store)
				if faulted && plan.fired == firedBefore && openPath != "" && openRDWR && undisturbed && (o.H == "HWrite" || (o.H == "HTruncate" && plan.getErr == nil)) && !resultFailed(o, res) && hs.h != nil {
					// a later, fault-free modification through the handle that reported success: the file read by name
					// now holds what the handle holds (one bad answer from the store must not have become handle state)
					hb := make([]byte, 4096)
					hn, herr := hackpadfs.ReadAtFile(hs.h, hb, 0)
					pb, perr := hackpadfs.ReadFile(st.fs, openPath)
					// (a handle whose lazily loaded contents failed to load may go on failing -- the record memoises the
					// failed load -- and then holds nothing to compare; a Truncate to the length the file already has is
					// rightly a success without it)
					if perr == nil && (herr == nil || herr == io.EOF) && !bytes.Equal(hb[:hn], pb) {
						t.Fail("handle-write-not-stored", "C14:"+opName(o)+":ok-but-not-stored-after-earlier-fault", fmt.Sprintf("step %d %s on %s returned %q after the earlier store fault (%s), but %q read by name holds %q while the handle holds %q", i, o, st.name, res, plan.firedAt, openPath, clip(pb), clip(hb[:hn])))
					}
					t.Stat("c14:handle-vs-name-compared-after-fault")
				}
				if plan.fired > firedBefore && plan.getErr != nil {
					// the lie "does not exist": any outcome of this one call is accepted (no panic was checked above)
					faulted = true
					plan.armed = false
					t.Stat("probe:fault-inside-operation")
				} else if plan.fired > firedBefore {
					faulted = true
					plan.armed = false
					fk := strings.Fields(plan.firedAt)[0]
					sig := "C14:" + opName(o) + ":fault=" + fk
					if fk == "Set" && ambig {
						sig += "(applied)"
					}
					t.Stat("probe:fault-inside-operation")
					failed := resultFailed(o, res)
					switch fk {
					case "Commit":
						if !failed {
							t.Fail("silent-commit-failure", sig+":returned-ok", fmt.Sprintf("step %d %s on %s: the store refused the transaction at Commit (results present, error set), the operation returned %q (no error)", i, o, st.name, res))
						}
					case "Set":
						if !failed {
							t.Fail("silent-write-failure", sig+":returned-ok", fmt.Sprintf("step %d %s on %s: the store rejected %s, the operation returned %q (no error)", i, o, st.name, plan.firedAt, res))
						}
					default:
						if !failed {
							// the failed call was not needed: then the operation must have done exactly what it does without the fault
							if res != want {
								t.Fail("wrong-result-after-read-fault", sig+":ok-but-differs", fmt.Sprintf("step %d %s on %s: store call %s failed, the operation returned %q without error; fault-free it returns %q", i, o, st.name, plan.firedAt, res, want))
							}
							if a, b := storeView(st, cands), storeView(twin, cands); a != b {
								t.Fail("wrong-state-after-read-fault", sig+":ok-but-state-differs", fmt.Sprintf("step %d %s on %s: store call %s failed, the operation returned %q without error, but the store now holds\n%sinstead of\n%s", i, o, st.name, plan.firedAt, res, a, b))
							}
						}
					}
				}
				if plan.fired > firedBefore && resultFailed(o, res) && (o.Kind == "Chmod" || o.Kind == "Chtimes" || o.H == "HChmod" || o.H == "HTruncate") && want != "" && !resultFailed(o, want) &&
					!strings.HasPrefix(plan.firedAt, "Data") && !strings.HasPrefix(plan.firedAt, "ReadDirNames") && c.Chance(2, 3) { // (a failed lazy load is memoised by the handle's record: it may go on failing)
					// what a caller does next: try the same thing again. The fault is gone, so the single-record update
					// has to go through now, exactly as it did on the twin - not be skipped because the first attempt
					// already "changed" something in memory
					var res2 string
					func() {
						defer func() {
							if r := recover(); r != nil {
								if t.IsAbort(r) {
									panic(r)
								}
								t.Fail("panic", "C14:panic:retry:"+opName(o), fmt.Sprintf("retry of %s after a store fault panicked: %v", o, r))
							}
						}()
						res2 = execCOp(st.fs, hs, o)
					}()
					t.Logf("%d retry %s -> %s", i, o, res2)
					a, b := storeView(st, cands), storeView(twin, cands)
					if res2 != want || a != b {
						t.Fail("retry-not-applied", "C14:"+opName(o)+":retry-after-fault", fmt.Sprintf("step %d %s on %s failed because of %s; tried again without a fault it returned %q (fault-free: %q) and the store holds\n%sfault-free it holds\n%s", i, o, st.name, plan.firedAt, res2, want, a, b))
					}
					t.Stat("c14:retried-after-fault")
				}
				if faulted {
					if msg := freshLookup(st, cands); msg != "" {
						fk := strings.Fields(plan.firedAt)[0]
						t.Fail("lookup-disagrees-with-store", "C14:lookup:"+fk, fmt.Sprintf("after step %d %s on %s (store fault %s earlier): %s", i, o, st.name, plan.firedAt, msg))
					}
				}
			}
			if hs.h != nil {
				hs.h.Close()
			}
			if ht.h != nil {
				ht.h.Close()
			}
			if faulted {
				t.NonTrivial()
			}
		})
		s.Run()
	})
}

func opName(o cOp) string {
	if o.H != "" {
		return o.H
	}
	return o.Kind
}

// kvSimStore digs the SimStore out of a stack built by c14Build (kinds 0 and 1).
func kvSimStore(st *c14Stack) (*SimStore, bool) {
	if st.plan == nil {
		return nil, false
	}
	return st.sim, st.sim != nil
}

func init() {
	Register(&Engine{
		Prop: "C14", Name: "storesim", Run: runC14,
		Trials: map[string]int{"quick": 20000, "thorough": 300000},
		Rule:   "histories of 2-11 operations (namespace ops and I/O on a handle that may have been opened before the fault) on keyvalue.FS over a plain SimStore in both flavours (serial fallback transaction) and over the real in-memory TransactionStore behind a fault-injecting wrapper; one store fault per trial, its position drawn over the store call indices of the history and its kind over Get / rejected Set / Set applied but reported failed / lazy Data() / lazy ReadDirNames() / Transaction(); a fault-free twin runs in lockstep; judged: rejected write => error; failed read-side call => error, or result and store contents identical to the twin's; no panic; no hang (single scheduler task with lock gates: a store left locked is a deadlock verdict); after the fault every candidate path's Stat/ReadFile agrees with what the store holds; non-trivial = the fault fired inside an operation; distinct = event-log hash Faults also at Commit (results together with an error) and as a Get that answers ErrNotExist for a record that is there; a failed Chmod/Chtimes/handle Chmod/handle Truncate is retried without the fault and has to go through as on the twin; after a fault, what a handle holds is compared with what the name yields after later successful writes; the store comparison includes permission bits and Chtimes-set times.",
		Components: map[string][]string{
			"real": {"keyvalue.FS, file, record", "keyvalue serial fallback transaction", "mem store + transactions (third stack)"},
			"stub": {"SimStore (plain store)", "fault-injecting wrapper around the in-memory store"},
		},
	})
}

// c14Probe: fixed history on the sharing SimStore stack with one fault of the given kind at the given store call.
func c14Probe(kind int, faultKind string, at int, ops ...cOp) func(t *T) {
	return func(t *T) {
		defer beginTrial(t, false)()
		inBubble(t, 5000, func(s *Sched) {
			s.Go("client", func() {
				plan := &faultPlan{t: t, at: at, kind: faultKind}
				st := c14Build(t, kind, plan)
				plan.armed = true
				plan.calls = 0
				hs := &taskState{}
				for i, o := range ops {
					before := plan.fired
					var res string
					func() {
						defer func() {
							if r := recover(); r != nil {
								if t.IsAbort(r) {
									panic(r)
								}
								t.Fail("panic", "C14:panic:"+opName(o)+":"+faultKind, fmt.Sprint(r))
							}
						}()
						res = execCOp(st.fs, hs, o)
					}()
					t.Logf("%d %s -> %s", i, o, res)
					if plan.fired > before && faultKind == "Set" && !resultFailed(o, res) {
						t.Fail("silent-write-failure", "C14:"+opName(o)+":fault=Set:returned-ok", res)
					}
				}
			})
			s.Run()
		})
	}
}

// c14TruncateRetryProbe: a handle Truncate refused by the store, then the same Truncate again without a fault.
func c14TruncateRetryProbe(t *T) {
	defer beginTrial(t, false)()
	inBubble(t, 5000, func(s *Sched) {
		s.Go("client", func() {
			plan := &faultPlan{t: t, at: 0, kind: "Set"}
			st := c14Build(t, 1, plan) // the copying store: what was not Set is not there
			hs := &taskState{}
			execCOp(st.fs, hs, cOp{Op: Op{Kind: "WriteFullFile", P: "b", Perm: 0644, Data: []byte("bbbbbb")}})
			execCOp(st.fs, hs, cOp{H: "HOpen", Op: Op{P: "b", Flag: hackpadfs.FlagReadWrite}})
			plan.armed, plan.calls = true, 0
			r1 := execCOp(st.fs, hs, cOp{H: "HTruncate", N: 3})
			plan.armed = false
			r2 := execCOp(st.fs, hs, cOp{H: "HTruncate", N: 3})
			pb, _ := hackpadfs.ReadFile(st.fs, "b")
			t.Logf("Truncate(3) with the Set refused -> %s; again -> %s; b read by name: %q", r1, r2, pb)
			if !resultFailed(cOp{H: "HTruncate"}, r2) && string(pb) != "bbb" {
				t.Fail("handle-write-not-stored", "C14:HTruncate:ok-but-not-stored-after-earlier-fault", fmt.Sprintf("the second Truncate(3) returned %q, b read by name holds %q", r2, pb))
			}
		})
		s.Run()
	})
}

func init() {
	RegisterProbe("c14-truncate-retry-after-refused-set", c14TruncateRetryProbe)
	RegisterProbe("c14-mkdir-set-rejected", c14Probe(0, "Set", 0, cOp{Op: Op{Kind: "Mkdir", P: "a", Perm: 0755}}))
	RegisterProbe("c14-rename-set-rejected", c14Probe(2, "Set", 0, cOp{Op: opWrite("b")}, cOp{Op: opRename("b", "d")}))
	RegisterProbe("c14-mkdirall-no-transaction", c14Probe(2, "Transaction", 0, cOp{Op: Op{Kind: "MkdirAll", P: "a/c", Perm: 0755}}))
}
