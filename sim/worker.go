package sim

import (
	"bufio"
	"encoding/json"
	"fmt"
	"os"
	"runtime"
	"strings"
	"testing"
)

// Request is one line driver -> worker.
type Request struct {
	Kind      string          `json:"kind"` // trial | replay | probe | quit
	Prop      string          `json:"prop"`
	Tier      string          `json:"tier"`
	Trial     uint64          `json:"trial"`
	Seed      uint64          `json:"seed"`
	Choices   []uint32        `json:"choices,omitempty"`
	Keep      bool            `json:"keep"`
	Probe     string          `json:"probe,omitempty"`
	Active    []*KnownFinding `json:"active,omitempty"`
	ChoiceLog string          `json:"choice_log,omitempty"` // write every draw, unbuffered, to this file
	WantLog   bool            `json:"want_log"`
}

var currentTestingT *testing.T

func panicClass(r interface{}) string {
	s := fmt.Sprint(r)
	if i := strings.IndexByte(s, '\n'); i >= 0 {
		s = s[:i]
	}
	// strip numbers that vary with inputs so signatures stay coarse
	var b strings.Builder
	for _, c := range s {
		if c >= '0' && c <= '9' {
			if b.Len() > 0 && strings.HasSuffix(b.String(), "#") {
				continue
			}
			b.WriteByte('#')
			continue
		}
		b.WriteRune(c)
	}
	s = b.String()
	if len(s) > 100 {
		s = s[:100]
	}
	return s
}

func shortStack() string {
	buf := make([]byte, 8192)
	n := runtime.Stack(buf, false)
	lines := strings.Split(string(buf[:n]), "\n")
	var out []string
	for _, l := range lines {
		if strings.Contains(l, "hackpadfs") || strings.Contains(l, "verif/sim") {
			out = append(out, strings.TrimSpace(l))
		}
		if len(out) > 24 {
			break
		}
	}
	return strings.Join(out, "\n")
}

// runOne executes one request in-process and returns its result.
func runOne(req *Request) *TrialResult {
	var c *Stream
	switch req.Kind {
	case "trial":
		c = NewSearchStream(req.Seed)
	default:
		c = NewReplayStream(req.Choices)
	}
	var clog *os.File
	if req.ChoiceLog != "" {
		f, err := os.OpenFile(req.ChoiceLog, os.O_WRONLY|os.O_CREATE|os.O_TRUNC, 0644)
		if err == nil {
			clog = f
			defer f.Close()
		}
	}
	t := newT(c, req.Prop, req.Tier, req.Keep, req.Active)
	if clog != nil {
		c.SetSink(clog)
	}
	var run func(t *T)
	if req.Kind == "probe" {
		p, ok := probes[req.Probe]
		if !ok {
			t.infra = "unknown probe " + req.Probe
			return t.result(req.Trial, req.Seed)
		}
		t.ProbeRun = true
		t.Engine = "probe:" + req.Probe
		run = p
	} else {
		e, ok := engines[req.Prop]
		if !ok {
			t.infra = "unknown property " + req.Prop
			return t.result(req.Trial, req.Seed)
		}
		t.Engine = e.Name
		run = e.Run
	}
	finish := func() *TrialResult {
		r := t.result(req.Trial, req.Seed)
		if req.WantLog || r.Violation != nil || req.Kind != "trial" {
			r.Choices = c.Log()
		}
		return r
	}
	dirtyExit = func(_ *T) {
		// the bubble cannot be left safely (tasks are parked holding locks or blocked for good):
		// answer now and let the driver start a fresh worker.
		r := finish()
		r.Exiting = true
		respond(r)
		os.Exit(0)
	}
	t.runGuarded(func() { run(t) })
	dirtyExit = nil
	return finish()
}

var respond func(r *TrialResult)

// workerLoop: requests on stdin, responses on fd 3.
func workerLoop(tt *testing.T) {
	currentTestingT = tt
	out := os.NewFile(3, "resp")
	if out == nil {
		fmt.Fprintln(os.Stderr, "worker: no fd 3")
		os.Exit(2)
	}
	w := bufio.NewWriter(out)
	in := bufio.NewReaderSize(os.Stdin, 1<<20)
	respond = func(res *TrialResult) {
		b, _ := json.Marshal(res)
		w.Write(b)
		w.WriteByte('\n')
		w.Flush()
	}
	for {
		line, err := in.ReadBytes('\n')
		if len(line) == 0 && err != nil {
			return
		}
		var req Request
		if e := json.Unmarshal(line, &req); e != nil {
			fmt.Fprintln(os.Stderr, "worker: bad request:", e)
			os.Exit(2)
		}
		if req.Kind == "quit" {
			return
		}
		res := runOne(&req)
		respond(res)
		if err != nil {
			return
		}
	}
}
