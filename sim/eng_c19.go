package sim

import (
	"bytes"
	"encoding/json"
	"fmt"
	"os"
	osexec "os/exec"
	"path/filepath"
	"strings"
	"sync"

	"github.com/hack-pad/hackpadfs/keyvalue/blob"

	"verif/sim/blobmodel"
)

func (t *T) IsAbort(r interface{}) bool { _, ok := r.(abortTrial); return ok }

// bareBlob exposes only the mandatory Blob methods, so the package-level dispatch takes its copy fallbacks.
type bareBlob struct{ b *blob.Bytes }

func (m bareBlob) Bytes() []byte { return m.b.Bytes() }
func (m bareBlob) Len() int      { return m.b.Len() }

// runC19 runs the blob engine as the single task of a bubble with the lock gates on, so that
// re-entering the (shared) blob mutex is reported as a deadlock instead of hanging.
func runC19(t *T) {
	defer beginTrial(t, false)()
	inBubble(t, 2000, func(s *Sched) {
		s.Go("blob-user", func() {
			if t.C.Chance(1, 6) {
				// a Blob exposing only Bytes/Len: View and Slice take their copy fallbacks. (The Set/Grow/
				// Truncate fallbacks work on a copy and cannot reach such a blob at all; that is outside
				// what C19 states about the library's own implementations, see DESIGN.md section 5.)
				blobmodel.Run(t.C, t, "bare", func(data []byte) blob.Blob {
					return bareBlob{blob.NewBytes(append([]byte(nil), data...))}
				}, false, true)
			} else {
				blobmodel.Run(t.C, t, "Bytes", func(data []byte) blob.Blob {
					return blob.NewBytes(append([]byte(nil), data...))
				}, true, false)
			}
			t.NonTrivial()
		})
		s.Run()
	})
}

func init() {
	Register(&Engine{
		Prop: "C19", Name: "blobsim", Run: runC19, Aux: c19WasmAux, AuxReplay: c19WasmReplay,
		Trials: map[string]int{"quick": 100000, "thorough": 1500000},
		Rule:   "sequences of 1-12 View/Slice/Set/Grow/Truncate/Len/Bytes calls through the package-level dispatch on 1-2 blob.Bytes of length 0..64 and on everything derived from them (views of views, Set from an own view), arguments from -2 to len+2 incl. start>end; after every call the Len and Bytes of every live object are compared with a []byte model (views alias, slices and Bytes() are copies; views are dropped when their root is resized); out-of-range arguments must give an error, no panic, no change; the sequence runs as the single task of the scheduler with lock gates on, so re-entering the blob mutex is a deterministic deadlock report; distinct = event-log hash; every executed sequence is non-trivial One Set source in four is plain Go memory; blobs of 70000/140001 bytes in one trial of 25; a refused Set returns n=0.",
		Components: map[string][]string{
			"real": {"keyvalue/blob.Bytes", "keyvalue/blob dispatch functions", "overlay lock gates in keyvalue/blob"},
			"stub": {},
		},
	})
}

// ---- js/wasm half: the same engine against idbblob under node ---------------------------------------------

type wasmResult struct {
	Summary    bool     `json:"summary"`
	Start      bool     `json:"start"`
	Trials     int      `json:"trials"`
	Violations int      `json:"violations"`
	Distinct   int      `json:"distinct"`
	Trial      uint64   `json:"trial"`
	Seed       uint64   `json:"seed"`
	Kind       string   `json:"kind"`
	Signature  string   `json:"signature"`
	Detail     string   `json:"detail"`
	Choices    []uint32 `json:"choices"`
	Trace      []string `json:"trace"`
	EventHash  string   `json:"event_hash"`
}

func wasmPaths() (node, exec, bin string, err error) {
	bin = filepath.Join(os.Getenv("VERIF_BUILD"), "blob.wasm")
	if _, e := os.Stat(bin); e != nil {
		return "", "", "", fmt.Errorf("blob.wasm was not built: %v", e)
	}
	node, e := osexec.LookPath("node")
	if e != nil {
		return "", "", "", fmt.Errorf("node not found: %v", e)
	}
	exec = "/opt/veriftools/go1.26.8/lib/wasm/wasm_exec_node.js"
	if _, e := os.Stat(exec); e != nil {
		return "", "", "", e
	}
	return node, exec, bin, nil
}

func runWasm(args ...string) ([]wasmResult, error) {
	node, exec, bin, err := wasmPaths()
	if err != nil {
		return nil, err
	}
	if len(args) > 0 && args[0] != "-probe" {
		args = append(append([]string{}, args...), wasmExtraArgs...)
	}
	cmd := osexec.Command(node, append([]string{exec, bin}, args...)...)
	var stderr bytes.Buffer
	cmd.Stderr = &stderr
	out, err := cmd.Output()
	var res []wasmResult
	for _, l := range bytes.Split(out, []byte("\n")) {
		if len(l) == 0 || l[0] != '{' {
			continue
		}
		var r wasmResult
		if json.Unmarshal(l, &r) == nil {
			res = append(res, r)
		}
	}
	if err != nil {
		return res, fmt.Errorf("node run failed: %v: %s", err, lastLines(stderr.String(), 12))
	}
	return res, nil
}

func choicesArg(c []uint32) string {
	var s []string
	for _, v := range c {
		s = append(s, fmt.Sprint(v))
	}
	if len(s) == 0 {
		return ","
	}
	return strings.Join(s, ",")
}

// c19WasmKnown runs the probes of the known findings about the typed-array blob under node ("wasm:<name>"),
// prints their KNOWN-FINDING lines, sets the relaxations they bring and returns VIOLATION lines for regressions.
func c19WasmKnown(d *driver) []string {
	// known findings about the typed-array blob: probes run under node ("wasm:<name>")
	var lines []string
	var extra []string
	known, kerr := loadKnown(filepath.Join(d.verifDir, "known_findings.json"))
	if kerr != nil {
		fatalInfra("known_findings.json: %v", kerr)
	}
	for _, k := range known {
		if k.Property != "C19" || !strings.HasPrefix(k.Probe, "wasm:") {
			continue
		}
		res, err := runWasm("-probe", strings.TrimPrefix(k.Probe, "wasm:"))
		if err != nil || len(res) == 0 {
			d.infraErrs = append(d.infraErrs, fmt.Sprintf("C19 js/wasm probe %s: %v", k.Probe, err))
			continue
		}
		still := res[0].Signature != "" && sigMatch(k.Signature, res[0].Signature)
		switch {
		case k.Status == "open" && still:
			fmt.Printf("KNOWN-FINDING: property=C19 %s [%s]\n", k.What, k.ID)
			for _, a := range k.Avoid {
				if a == "idbblob-truncate-detaches-views" {
					extra = append(extra, "-lenient-truncate")
				}
			}
		case k.Status == "fixed" && res[0].Signature != "":
			tr := &TrialResult{Trace: []string{"probe " + k.Probe}, Violation: &Violation{Property: "C19", Engine: "blobsim/wasm", Kind: res[0].Kind, Signature: res[0].Signature, Detail: res[0].Detail}}
			path := d.writeReplayEngine(tr, nil, nil, "blobsim/wasm")
			fmt.Printf("regression of %s (%s): %s\n%s\n", k.ID, k.What, res[0].Signature, res[0].Detail)
			lines = append(lines, fmt.Sprintf("VIOLATION property=C19 replay=%s", path))
		}
	}
	wasmExtraArgs = extra
	return lines
}

// wasmExtraArgs: relaxations in force for the js/wasm half of this run (open known findings); replays use them too.
var wasmExtraArgs []string

func c19WasmAux(d *driver) ([]string, map[string]interface{}) {
	total := map[string]int{"quick": 4000, "thorough": 400000}[d.tier]
	if total == 0 {
		total = 4000
	}
	notes := map[string]interface{}{}
	if _, _, _, err := wasmPaths(); err != nil {
		d.infraErrs = append(d.infraErrs, fmt.Sprintf("C19 js/wasm half cannot run: %v", err))
		notes["wasm_half"] = "typed-array implementation not run: " + err.Error()
		return nil, notes
	}
	lines := c19WasmKnown(d)
	nw := d.nworkers
	per := (total + nw - 1) / nw
	type part struct {
		res       []wasmResult
		err       error
		crashTail string
	}
	parts := make([]part, nw)
	var wg sync.WaitGroup
	for w := 0; w < nw; w++ {
		wg.Add(1)
		go func(w int) {
			defer wg.Done()
			from, to := w*per, (w+1)*per
			if to > total {
				to = total
			}
			if from >= to {
				return
			}
			parts[w].res, parts[w].err = runWasm("-base", fmt.Sprint(d.seed), "-from", fmt.Sprint(from), "-to", fmt.Sprint(to))
			if parts[w].err != nil {
				parts[w].crashTail = parts[w].err.Error()
				if len(parts[w].res) > 0 {
					parts[w].err = nil
				}
			}
		}(w)
	}
	wg.Wait()
	trials, distinct := 0, 0
	seen := map[string]bool{}
	for _, p := range parts {
		if p.err != nil {
			d.infraErrs = append(d.infraErrs, fmt.Sprintf("C19 js/wasm half: %v", p.err))
			continue
		}
		crashed := false
		var lastStart *wasmResult
		for i := range p.res {
			if p.res[i].Start {
				lastStart = &p.res[i]
			}
			if p.res[i].Summary {
				crashed = false
				lastStart = nil
			}
		}
		if lastStart != nil {
			crashed = true
		}
		if crashed && !seen["crash"] && len(lines) < 3 {
			// the process died inside a trial (Go fatal error, e.g. a deadlock under the single-threaded js runtime)
			seen["crash"] = true
			tr := &TrialResult{Trial: lastStart.Trial, Seed: lastStart.Seed,
				Violation: &Violation{Property: "C19", Engine: "blobsim/wasm", Kind: "crash", Signature: "C19:idbblob:crash",
					Detail: "the js/wasm process died during this sequence (fatal error or deadlock): " + p.crashTail}}
			// confirm alone
			rr, cerr := runWasm("-base", fmt.Sprint(d.seed), "-from", fmt.Sprint(lastStart.Trial), "-to", fmt.Sprint(lastStart.Trial+1))
			done := false
			for _, x := range rr {
				if x.Summary {
					done = true
				}
			}
			if cerr != nil || !done {
				path := d.writeReplayEngine(tr, nil, nil, "blobsim/wasm")
				fmt.Printf("violation (typed-array blob under node) kind=crash trial=%d\n%s\n", lastStart.Trial, tr.Violation.Detail)
				lines = append(lines, fmt.Sprintf("VIOLATION property=C19 replay=%s", path))
			} else {
				d.infraErrs = append(d.infraErrs, fmt.Sprintf("wasm batch died at trial %d but the trial passes alone", lastStart.Trial))
			}
		}
		for _, r := range p.res {
			if r.Start {
				continue
			}
			if r.Summary {
				trials += r.Trials
				distinct += r.Distinct
				continue
			}
			if r.Signature == "" || seen[r.Signature] || len(lines) >= 3 {
				continue
			}
			seen[r.Signature] = true
			sig := r.Signature
			min := shrinkWith(r.Choices, 80, func(c []uint32) bool {
				rr, err := runWasm("-replay", choicesArg(c))
				return err == nil && len(rr) > 0 && rr[0].Signature == sig
			})
			final, err := runWasm("-replay", choicesArg(min))
			if err != nil || len(final) == 0 || final[0].Signature != sig {
				d.infraErrs = append(d.infraErrs, "wasm violation "+sig+" did not reproduce on replay")
				continue
			}
			tr := &TrialResult{Trial: r.Trial, Seed: r.Seed, EventHash: final[0].EventHash, Trace: final[0].Trace,
				Violation: &Violation{Property: "C19", Engine: "blobsim/wasm", Kind: final[0].Kind, Signature: sig, Detail: final[0].Detail}}
			path := d.writeReplayEngine(tr, min, r.Choices, "blobsim/wasm")
			fmt.Printf("violation (typed-array blob under node) kind=%s signature=%s\n%s\n", tr.Violation.Kind, sig, tr.Violation.Detail)
			lines = append(lines, fmt.Sprintf("VIOLATION property=C19 replay=%s", path))
		}
	}
	notes["wasm_half"] = map[string]interface{}{"implementation": "indexeddb/idbblob.Blob under node (GOOS=js GOARCH=wasm)", "sequences": trials, "distinct_event_logs_per_process_sum": distinct}
	return lines, notes
}

func c19WasmReplay(d *driver, rf *replayFile, path string) int {
	if len(rf.Trace) == 1 && strings.HasPrefix(rf.Trace[0], "probe wasm:") {
		res, err := runWasm("-probe", strings.TrimPrefix(rf.Trace[0], "probe wasm:"))
		if err != nil || len(res) == 0 {
			fatalInfra("wasm probe replay: %v", err)
		}
		if res[0].Signature != "" {
			fmt.Printf("%s\nVIOLATION property=C19 replay=%s\n", res[0].Detail, path)
			return 1
		}
		fmt.Printf("replay of %s: the scenario passes on this tree\n", path)
		return 0
	}
	c19WasmKnown(d) // the relaxations of open findings apply to replays as well
	if rf.Violation != nil && rf.Violation.Kind == "crash" {
		rr, err := runWasm("-base", fmt.Sprint(rf.BaseSeed), "-from", fmt.Sprint(rf.Trial), "-to", fmt.Sprint(rf.Trial+1))
		for _, x := range rr {
			if x.Summary {
				fmt.Printf("replay of %s: the sequence completes on this tree\n", path)
				return 0
			}
		}
		fmt.Printf("the js/wasm process died again: %v\nVIOLATION property=C19 replay=%s\n", err, path)
		return 1
	}
	res, err := runWasm("-replay", choicesArg(rf.Choices))
	if err != nil || len(res) == 0 {
		fatalInfra("wasm replay: %v", err)
	}
	for _, l := range res[0].Trace {
		fmt.Println("  " + l)
	}
	if res[0].Signature != "" {
		fmt.Printf("violation kind=%s signature=%s\n%s\n", res[0].Kind, res[0].Signature, res[0].Detail)
		fmt.Printf("reproduced: signature_same=%v event_hash_same=%v\n", rf.Violation != nil && rf.Violation.Signature == res[0].Signature, res[0].EventHash == rf.EventHash)
		fmt.Printf("VIOLATION property=C19 replay=%s\n", path)
		return 1
	}
	fmt.Printf("replay of %s: no violation on this tree\n", path)
	return 0
}

// c19Probe runs a fixed scenario on blob.Bytes as the single task of a bubble (lock gates on).
func c19Probe(sig string, fn func(b *blob.Bytes) string) func(t *T) {
	return func(t *T) {
		defer beginTrial(t, false)()
		inBubble(t, 500, func(s *Sched) {
			s.Go("blob-user", func() {
				b := blob.NewBytes([]byte("abcdefgh"))
				msg := ""
				func() {
					defer func() {
						if r := recover(); r != nil {
							if t.IsAbort(r) {
								panic(r)
							}
							msg = "panic: " + panicClass(r)
						}
					}()
					msg = fn(b)
				}()
				if msg != "" {
					t.Fail("probe", sig, msg)
				}
			})
			s.Run()
		})
	}
}

func init() {
	RegisterProbe("c19-slice-range", c19Probe("C19:Bytes:Slice:in-range:bytes", func(b *blob.Bytes) string {
		s, err := b.Slice(3, 6)
		if err != nil || string(s.Bytes()) != "def" {
			return fmt.Sprintf("Slice(3,6) of abcdefgh = %q, %v", s.Bytes(), err)
		}
		return ""
	}))
	RegisterProbe("c19-view-start-after-end", c19Probe("C19:Bytes:View:out-of-range:panic", func(b *blob.Bytes) string {
		if _, err := b.View(6, 3); err == nil {
			return "View(6,3) returned no error"
		}
		return ""
	}))
	RegisterProbe("c19-truncate-negative", c19Probe("C19:Bytes:Truncate:out-of-range:panic", func(b *blob.Bytes) string {
		if err := b.Truncate(-1); err == nil {
			return "Truncate(-1) returned no error"
		}
		if b.Len() != 8 {
			return "Truncate(-1) changed the blob"
		}
		return ""
	}))
	RegisterProbe("c19-set-own-view", c19Probe("deadlock", func(b *blob.Bytes) string {
		v, _ := b.View(0, 3)
		if _, err := b.Set(v, 2); err != nil {
			return err.Error()
		}
		if string(b.Bytes()) != "ababcfgh" {
			return fmt.Sprintf("b.Set(b.View(0,3),2) gave %q", b.Bytes())
		}
		return ""
	}))
}
