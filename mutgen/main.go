// mutgen writes mechanical mutants of Go source files: one mutated copy of one file per mutant.
//
//	go run . -repo /repo -out /tmp/mut file1.go file2.go ...
//
// Operators: negated conditions, swapped comparison/boolean/arithmetic operators, removed statements (calls,
// op-assignments, increments, defers), "return ..., err" turned into "return ..., nil", integer literals n -> n+1.
// Every mutant is written as <out>/<id>/mutated.go plus <out>/<id>/meta.json {file, line, op, before, after}.
// Used by /verif/mutsweep.sh; not part of any registered check.
package main

import (
	"bytes"
	"encoding/json"
	"flag"
	"fmt"
	"go/ast"
	"go/parser"
	"go/printer"
	"go/token"
	"os"
	"path/filepath"
	"strconv"
	"strings"
)

type meta struct {
	ID     string `json:"id"`
	File   string `json:"file"`
	Line   int    `json:"line"`
	Op     string `json:"op"`
	Before string `json:"before"`
	After  string `json:"after"`
}

var swaps = map[token.Token][]token.Token{
	token.LSS: {token.LEQ}, token.LEQ: {token.LSS}, token.GTR: {token.GEQ}, token.GEQ: {token.GTR},
	token.EQL: {token.NEQ}, token.NEQ: {token.EQL}, token.LAND: {token.LOR}, token.LOR: {token.LAND},
	token.ADD: {token.SUB}, token.SUB: {token.ADD},
}

func render(fset *token.FileSet, n interface{}) string {
	var b bytes.Buffer
	printer.Fprint(&b, fset, n)
	s := b.String()
	if i := strings.IndexByte(s, '\n'); i >= 0 {
		s = s[:i] + " ..."
	}
	if len(s) > 120 {
		s = s[:120] + "..."
	}
	return s
}

func main() {
	repo := flag.String("repo", "/repo", "repository root")
	out := flag.String("out", "/tmp/mut", "output directory")
	flag.Parse()
	count := 0
	for _, rel := range flag.Args() {
		path := filepath.Join(*repo, rel)
		src, err := os.ReadFile(path)
		if err != nil {
			fmt.Fprintln(os.Stderr, err)
			os.Exit(2)
		}
		// enumerate mutation sites on a first parse; each mutant re-parses and applies the k-th site
		nsites := countSites(src)
		for k := 0; k < nsites; k++ {
			fset := token.NewFileSet()
			f, err := parser.ParseFile(fset, rel, src, parser.ParseComments)
			if err != nil {
				fmt.Fprintln(os.Stderr, err)
				os.Exit(2)
			}
			m := applySite(fset, f, k)
			if m == nil {
				continue
			}
			var b bytes.Buffer
			if err := printer.Fprint(&b, fset, f); err != nil {
				continue
			}
			count++
			m.ID = fmt.Sprintf("%s-%04d", strings.NewReplacer("/", "_", ".go", "").Replace(rel), k)
			m.File = rel
			dir := filepath.Join(*out, m.ID)
			os.MkdirAll(dir, 0755)
			os.WriteFile(filepath.Join(dir, "mutated.go"), b.Bytes(), 0644)
			j, _ := json.MarshalIndent(m, "", " ")
			os.WriteFile(filepath.Join(dir, "meta.json"), j, 0644)
		}
	}
	fmt.Println(count, "mutants")
}

func countSites(src []byte) int {
	fset := token.NewFileSet()
	f, err := parser.ParseFile(fset, "x.go", src, parser.ParseComments)
	if err != nil {
		return 0
	}
	n := 0
	visit(fset, f, func(site func() *meta) { n++ })
	return n
}

func applySite(fset *token.FileSet, f *ast.File, k int) *meta {
	var res *meta
	i := 0
	visit(fset, f, func(site func() *meta) {
		if i == k {
			res = site()
		}
		i++
	})
	return res
}

// visit calls found once per mutation site, in a fixed order; calling the site function applies the mutation.
func visit(fset *token.FileSet, f *ast.File, found func(site func() *meta)) {
	line := func(n ast.Node) int { return fset.Position(n.Pos()).Line }
	var funcResults *ast.FieldList
	var walkBlock func(list *[]ast.Stmt)
	var walkStmt func(s ast.Stmt)
	walkExpr := func(e ast.Expr) {
		ast.Inspect(e, func(n ast.Node) bool {
			switch x := n.(type) {
			case *ast.FuncLit:
				saved := funcResults
				funcResults = x.Type.Results
				walkBlock(&x.Body.List)
				funcResults = saved
				return false
			case *ast.BinaryExpr:
				for _, to := range swaps[x.Op] {
					x, to := x, to
					if x.Op == token.ADD {
						if bl, ok := x.X.(*ast.BasicLit); ok && bl.Kind == token.STRING {
							continue
						}
						if bl, ok := x.Y.(*ast.BasicLit); ok && bl.Kind == token.STRING {
							continue
						}
					}
					found(func() *meta {
						m := &meta{Line: line(x), Op: "swap " + x.Op.String() + " -> " + to.String(), Before: render(fset, x)}
						x.Op = to
						m.After = render(fset, x)
						return m
					})
				}
			case *ast.BasicLit:
				if x.Kind == token.INT {
					x := x
					if v, err := strconv.ParseInt(x.Value, 0, 64); err == nil && v >= 0 && v < 1<<20 {
						found(func() *meta {
							m := &meta{Line: line(x), Op: "int literal +1", Before: x.Value}
							x.Value = strconv.FormatInt(v+1, 10)
							m.After = x.Value
							return m
						})
					}
				}
			}
			return true
		})
	}
	walkStmt = func(s ast.Stmt) {
		switch x := s.(type) {
		case *ast.BlockStmt:
			walkBlock(&x.List)
		case *ast.IfStmt:
			if x.Init != nil {
				walkStmt(x.Init)
			}
			found(func() *meta {
				m := &meta{Line: line(x), Op: "negate condition", Before: render(fset, x.Cond)}
				x.Cond = &ast.UnaryExpr{Op: token.NOT, X: &ast.ParenExpr{X: x.Cond}}
				m.After = render(fset, x.Cond)
				return m
			})
			walkExpr(x.Cond)
			walkBlock(&x.Body.List)
			if x.Else != nil {
				walkStmt(x.Else)
			}
		case *ast.ForStmt:
			if x.Cond != nil {
				walkExpr(x.Cond)
			}
			walkBlock(&x.Body.List)
		case *ast.RangeStmt:
			walkBlock(&x.Body.List)
		case *ast.SwitchStmt:
			if x.Tag != nil {
				walkExpr(x.Tag)
			}
			for _, c := range x.Body.List {
				cc := c.(*ast.CaseClause)
				for _, e := range cc.List {
					walkExpr(e)
				}
				walkBlock(&cc.Body)
			}
		case *ast.TypeSwitchStmt:
			for _, c := range x.Body.List {
				walkBlock(&c.(*ast.CaseClause).Body)
			}
		case *ast.SelectStmt:
			for _, c := range x.Body.List {
				walkBlock(&c.(*ast.CommClause).Body)
			}
		case *ast.ReturnStmt:
			// return ..., err  ->  return ..., nil
			if n := len(x.Results); n > 0 && funcResults != nil {
				last := x.Results[n-1]
				if id, ok := last.(*ast.Ident); ok && id.Name != "nil" && lastIsError(funcResults) {
					found(func() *meta {
						m := &meta{Line: line(x), Op: "return nil instead of the error", Before: render(fset, x)}
						x.Results[n-1] = ast.NewIdent("nil")
						m.After = render(fset, x)
						return m
					})
				} else if _, ok := last.(*ast.CallExpr); ok && lastIsError(funcResults) && n == 1 && funcResults.NumFields() == 1 {
					_ = ok
				}
			}
			for _, e := range x.Results {
				walkExpr(e)
			}
		case *ast.AssignStmt:
			for _, e := range x.Rhs {
				walkExpr(e)
			}
		case *ast.ExprStmt:
			walkExpr(x.X)
		case *ast.DeferStmt:
			walkExpr(x.Call)
		case *ast.GoStmt:
			walkExpr(x.Call)
		case *ast.DeclStmt, *ast.IncDecStmt, *ast.SendStmt, *ast.BranchStmt, *ast.LabeledStmt, *ast.EmptyStmt:
		}
	}
	walkBlock = func(list *[]ast.Stmt) {
		for i := 0; i < len(*list); i++ {
			s := (*list)[i]
			removable := false
			switch x := s.(type) {
			case *ast.ExprStmt:
				_, removable = x.X.(*ast.CallExpr)
			case *ast.IncDecStmt:
				removable = true
			case *ast.DeferStmt:
				removable = true
			case *ast.AssignStmt:
				removable = x.Tok != token.DEFINE // plain and op-assignments (":=" would leave variables undeclared)
			}
			if removable {
				i := i
				found(func() *meta {
					m := &meta{Line: line(s), Op: "remove statement", Before: render(fset, s), After: "(removed)"}
					(*list)[i] = &ast.EmptyStmt{Semicolon: s.Pos(), Implicit: false}
					return m
				})
			}
			walkStmt(s)
		}
	}
	for _, d := range f.Decls {
		fd, ok := d.(*ast.FuncDecl)
		if !ok || fd.Body == nil {
			continue
		}
		funcResults = fd.Type.Results
		walkBlock(&fd.Body.List)
	}
}

func lastIsError(fl *ast.FieldList) bool {
	if fl == nil || len(fl.List) == 0 {
		return false
	}
	id, ok := fl.List[len(fl.List)-1].Type.(*ast.Ident)
	return ok && id.Name == "error"
}
