module verif/mutgen

go 1.18
