#!/bin/bash
# mutant.sh <patch-file> <property> [more properties...]
# Applies the patch to a scratch worktree of /repo's HEAD (outside /repo and /verif), checks that it
# still builds and passes the repository's test suite, runs the given properties' quick checks against
# it, prints one line per property, and removes the worktree and its build output.
set -u
patch="$(readlink -f "$1")"; shift
name="$(basename "$patch" .diff)"
wt="/tmp/verif-mut-$name-$$"
VERIF_DIR="$(cd "$(dirname "$0")" && pwd)"
cleanup() {
  git -C /repo worktree remove --force "$wt" >/dev/null 2>&1
  rm -rf "$wt" "$VERIF_DIR/.build-$(echo "$wt" | md5sum | cut -c1-8)"
}
trap cleanup EXIT
git -C /repo worktree add -q --detach "$wt" HEAD || { echo "MUTANT $name: worktree failed"; exit 2; }
if ! git -C "$wt" apply "$patch" 2>/tmp/verif-mut-apply.$$; then
  echo "MUTANT $name: patch does not apply: $(head -3 /tmp/verif-mut-apply.$$)"; rm -f /tmp/verif-mut-apply.$$; exit 2
fi
rm -f /tmp/verif-mut-apply.$$
if [ "${MUTANT_SKIP_BASELINE:-0}" != 1 ]; then
  if ! (cd "$wt" && go build ./... && go test -mod=mod -vet=off -count=1 ./... >/tmp/verif-mut-test.$$ 2>&1); then
    echo "MUTANT $name: does not build or fails the existing test suite (not a valid mutant)"; grep -E "^(---|FAIL|ok)" /tmp/verif-mut-test.$$ | head -5; rm -f /tmp/verif-mut-test.$$; exit 3
  fi
  rm -f /tmp/verif-mut-test.$$
fi
rc=0
for p in "$@"; do
  out=$(VERIF_REPO="$wt" VERIF_TIER="${MUTANT_TIER:-quick}" "$VERIF_DIR/check" "$p" --tier "${MUTANT_TIER:-quick}" 2>&1); code=$?
  case $code in
    1) echo "MUTANT $name: $p CAUGHT ($(echo "$out" | grep -m1 -E '^violation|^regression' | cut -c1-160))";;
    0) echo "MUTANT $name: $p missed"; rc=1;;
    *) echo "MUTANT $name: $p INFRA exit=$code: $(echo "$out" | grep -m2 INFRA | tr '\n' ' ' | cut -c1-200)"; rc=2;;
  esac
done
exit $rc
