#!/bin/bash
# mutsweep.sh <mutant dir made by mutgen> <worker index> <worker count>
# Mechanical mutation sweep (not a registered check; a tool to look for blind spots): every mutant that builds and
# passes the repository's own suite is run against the quick checks of the properties its file belongs to.
# One line per mutant on stdout: <id> nobuild | suite | CAUGHT <prop> | SURVIVED | infra
set -u
mdir="$1"; w="$2"; n="$3"
VERIF_DIR="$(cd "$(dirname "$0")" && pwd)"
export GOFLAGS=-mod=mod GOPROXY=off GOSUMDB=off
wt="/tmp/verif-mutsweep-$w"
git -C /repo worktree remove --force "$wt" >/dev/null 2>&1; rm -rf "$wt"
git -C /repo worktree add -q --detach "$wt" HEAD || exit 2
trap 'git -C /repo worktree remove --force "$wt" >/dev/null 2>&1; rm -rf "$wt" "$VERIF_DIR/.build-$(echo "$wt" | md5sum | cut -c1-8)"' EXIT
props_for() {
  case "$1" in
    keyvalue/blob/*) echo "C19 C02 C15";;
    keyvalue/txn_store.go) echo "C18 C14 C01";;
    keyvalue/*) echo "C01 C02 C03 C17 C16 C14 C15 C05 C04";;
    mem/store.go) echo "C18 C15 C01 C16";;
    mem/*) echo "C01 C02 C15";;
    mount/*) echo "C06 C03 C05 C04 C07";;
    cache/*|internal/pathlock/*) echo "C10 C11 C16 C17 C05 C04";;
    tar/*) echo "C12 C13 C05 C04";;
    os/*) echo "C01 C02 C05 C04 C07 C08 C16";;
    fstest/*) echo "C20";;
    *) echo "C08 C07 C05 C04 C06 C01";;
  esac
}
i=0
for d in $(ls "$mdir" | sort); do
  i=$((i+1)); [ $((i % n)) -eq "$w" ] || continue
  [ -f "$mdir/$d/result" ] && { cat "$mdir/$d/result"; continue; }
  file=$(python3 -c "import json,sys;print(json.load(open(sys.argv[1]))['file'])" "$mdir/$d/meta.json")
  git -C "$wt" checkout -q -- . ; cp "$mdir/$d/mutated.go" "$wt/$file"
  res=""
  if ! (cd "$wt" && go build ./... >/dev/null 2>&1 && go vet "./$(dirname $file)" >/dev/null 2>&1); then res="nobuild"
  else
    ok=0
    for try in 1 2; do (cd "$wt" && timeout 300 go test -vet=off -count=1 ./... >/tmp/mutsweep-suite.$w 2>&1) && { ok=1; break; }
      grep -q "^--- FAIL: TestNewTarFromFS" /tmp/mutsweep-suite.$w || break   # only the known wall-clock flake is worth a second run
    done
    if [ $ok = 0 ]; then res="suite"
    else
      res="SURVIVED"
      for p in $(props_for "$file"); do
        out=$(VERIF_REPO="$wt" timeout 900 "$VERIF_DIR/check" "$p" --tier quick 2>&1); code=$?
        if [ $code -eq 1 ]; then res="CAUGHT $p $(echo "$out" | grep -m1 -E '^violation|^regression' | cut -c1-120)"; break; fi
        if [ $code -ne 0 ]; then res="infra $p exit=$code $(echo "$out" | grep -m1 -i infra | cut -c1-120)"; break; fi
      done
    fi
  fi
  echo "$d $res" | tee "$mdir/$d/result"
done
