#!/usr/bin/env python3
"""seed_recheck.py [-j N] [seed ids...]  — re-run seed_verify.sh for registered seeds (all by default) against
/repo's HEAD with the current engines and refresh the 'checks' part of their meta.json; prints seeds that no
check catches any more. Does not touch anything else in the seed directories."""
import json, os, subprocess, sys, glob
from concurrent.futures import ThreadPoolExecutor
ROOT = os.path.dirname(os.path.abspath(__file__))
def one(d):
    mp = os.path.join(d, "meta.json"); m = json.load(open(mp))
    demo, pkg = m["demo"]["file"], m["demo"]["package_dir"]
    checks = list(m.get("checks", {}).keys()) or [m["property"]]
    out = subprocess.run([os.path.join(ROOT, "seed_verify.sh"), d, pkg, demo] + checks, capture_output=True, text=True).stdout.strip().splitlines()
    try: res = json.loads(out[-1])
    except Exception: return m["id"], None, "no result"
    if "error" in res: return m["id"], None, res["error"]
    m["checks"] = res.get("checks", {})
    if not str(m.get("demo", {}).get("run", "")).startswith("GOOS=js"):  # (js/wasm demonstrations are run by hand, see their meta)
        m["valid"] = res.get("demo_without_change_exit") == 0 and res.get("demo_with_change_exit") != 0 and res.get("suite_with_change_exit") == 0
        w = m.setdefault("what_was_run", {})
        w["existing suite with the change (exit)"] = res.get("suite_with_change_exit")
        w["demonstration without the change (exit)"] = res.get("demo_without_change_exit")
        w["demonstration with the change (exit)"] = res.get("demo_with_change_exit")
    m["confirmed_against_repo_commit"] = subprocess.check_output(["git", "-C", "/repo", "rev-parse", "--short", "HEAD"]).decode().strip()
    json.dump(m, open(mp, "w"), indent=1)
    return m["id"], {p: r["exit"] for p, r in m["checks"].items()}, "" if m.get("valid") else "DEMONSTRATION NO LONGER VALID (without=%s with=%s suite=%s)" % (res.get("demo_without_change_exit"), res.get("demo_with_change_exit"), res.get("suite_with_change_exit"))
def main():
    args = sys.argv[1:]; j = 4
    if args[:1] == ["-j"]: j = int(args[1]); args = args[2:]
    dirs = [os.path.join(ROOT, "seeded", a) for a in args] or sorted(os.path.dirname(p) for p in glob.glob(os.path.join(ROOT, "seeded", "*", "meta.json")))
    with ThreadPoolExecutor(j) as ex:
        for sid, res, err in ex.map(one, dirs):
            caught = res and any(v == 1 for v in res.values())
            print(sid, res if res is not None else "ERROR " + err, "" if caught or res is None else "<-- NOT CAUGHT", err if res is not None else "", flush=True)
if __name__ == "__main__":
    main()
