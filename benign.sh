#!/bin/bash
# benign.sh [patch...]   (default: every /verif/benign/*.diff)
# No-false-alarm corpus: behaviour-preserving changes to hack-pad/hackpadfs (refactorings, lock kinds, buffer
# sizes, message texts). Each is applied to a scratch worktree of /repo's HEAD; the repository's suite must
# pass with it and EVERY check must exit 0 against it (KNOWN-FINDING lines are fine). Prints one line per
# patch and check that does not; exit 0 only if there is none.
set -u
VERIF_DIR="$(cd "$(dirname "$0")" && pwd)"
export GOFLAGS=-mod=mod GOPROXY=off GOSUMDB=off
patches=("$@"); [ ${#patches[@]} -eq 0 ] && patches=("$VERIF_DIR"/benign/*.diff)
props=${BENIGN_PROPS:-C01 C02 C03 C04 C05 C06 C07 C08 C10 C11 C12 C13 C14 C15 C16 C17 C18 C19 C20}
tier=${BENIGN_TIER:-quick}
rc=0
for patch in "${patches[@]}"; do
  patch="$(readlink -f "$patch")"; name="$(basename "$patch" .diff)"
  wt="/tmp/verif-benign-$name-$$"
  git -C /repo worktree add -q --detach "$wt" HEAD || { echo "BENIGN $name: worktree failed"; rc=2; continue; }
  if ! git -C "$wt" apply "$patch" 2>/dev/null; then echo "BENIGN $name: patch does not apply to HEAD"; rc=2
  else
    ok=0; for i in 1 2 3; do (cd "$wt" && go build ./... && go test -vet=off -count=1 ./... >/tmp/verif-benign-suite.$$ 2>&1) && { ok=1; break; }; done
    if [ $ok = 0 ]; then echo "BENIGN $name: fails the repository's suite (not a valid entry)"; grep -E '^(---|FAIL)' /tmp/verif-benign-suite.$$ | head -3; rc=2
    else
      bad=""
      for p in $props; do
        out=$(VERIF_REPO="$wt" "$VERIF_DIR/check" "$p" --tier "$tier" 2>&1); code=$?
        if [ $code -ne 0 ]; then bad="$bad $p(exit $code: $(echo "$out" | grep -m1 -E '^violation|^regression|INFRA|infra' | cut -c1-150))"; fi
      done
      if [ -n "$bad" ]; then echo "BENIGN $name: ALARM:$bad"; rc=1; else echo "BENIGN $name: all checks exit 0"; fi
    fi
  fi
  git -C /repo worktree remove --force "$wt" >/dev/null 2>&1
  rm -rf "$wt" "$VERIF_DIR/.build-$(echo "$wt" | md5sum | cut -c1-8)" /tmp/verif-benign-suite.$$
done
exit $rc
