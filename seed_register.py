#!/usr/bin/env python3
"""seed_register.py <src dir> <seed id> <property> <demo package dir> <checks...>
Copies a sub-agent's deliverable into /verif/seeded/<seed id>/, re-confirms it with seed_verify.sh
against /repo's HEAD and writes meta.json. `seed_register.py --index` regenerates INDEX.md."""
import json, os, shutil, subprocess, sys, glob

ROOT = os.path.dirname(os.path.abspath(__file__))

def index():
    rows = []
    for m in sorted(glob.glob(os.path.join(ROOT, "seeded", "*", "meta.json"))):
        d = json.load(open(m))
        caught = [p for p, r in d.get("checks", {}).items() if r.get("exit") == 1]
        missed = [p for p, r in d.get("checks", {}).items() if r.get("exit") == 0]
        rows.append("| %s | %s | %s | %s | %s | %s |" % (d["id"], d["property"], d["summary"].replace("|", "/"), ", ".join(caught) or "-", ", ".join(missed) or "-", d.get("note", "").replace("|", "/")))
    with open(os.path.join(ROOT, "seeded", "INDEX.md"), "w") as f:
        f.write("# Seeded changes (written by independent sub-agents from the property text only)\n\n")
        f.write("Each directory holds patch.diff, the demonstration, the agent's notes.md and meta.json (what was run). "
                "`valid` = patch applies to /repo HEAD, the unedited suite passes with it, the demonstration fails with it and passes without it.\n\n")
        f.write("| seed | property | change | caught by (quick tier) | not caught by | note |\n|---|---|---|---|---|---|\n")
        f.write("\n".join(rows) + "\n")

def main():
    if sys.argv[1] == "--index":
        index(); return
    src, sid, prop, pkg = sys.argv[1:5]
    checks = sys.argv[5:]
    dst = os.path.join(ROOT, "seeded", sid)
    os.makedirs(dst, exist_ok=True)
    for f in os.listdir(src):
        shutil.copy(os.path.join(src, f), os.path.join(dst, f))
    demos = sorted(f for f in os.listdir(dst) if f.endswith("_test.go"))
    demo = "demo_test.go" if "demo_test.go" in demos else demos[0]
    out = subprocess.run([os.path.join(ROOT, "seed_verify.sh"), dst, pkg, demo] + checks, capture_output=True, text=True).stdout.strip().splitlines()[-1]
    res = json.loads(out)
    notes = open(os.path.join(dst, "notes.md")).read() if os.path.exists(os.path.join(dst, "notes.md")) else ""
    meta_path = os.path.join(dst, "meta.json")
    old = json.load(open(meta_path)) if os.path.exists(meta_path) else {}
    head = subprocess.check_output(["git", "-C", "/repo", "rev-parse", "--short", "HEAD"]).decode().strip()
    meta = {
        "id": sid, "property": prop,
        "summary": old.get("summary", ""), "needs_to_manifest": old.get("needs_to_manifest", ""), "note": old.get("note", ""),
        "demo": {"file": demo, "package_dir": pkg, "run": "cp %s <repo>/%s/zz_seed_demo_test.go && cd <repo>/%s && go test -vet=off -count=1 -run '^(<the Test functions of the demo file>)$' ." % (demo, pkg, pkg)},
        "confirmed_against_repo_commit": head,
        "valid": res.get("demo_without_change_exit") == 0 and res.get("demo_with_change_exit") != 0 and res.get("suite_with_change_exit") == 0,
        "what_was_run": {"patch applied with git apply": "error" not in res, "existing suite with the change (exit)": res.get("suite_with_change_exit"),
                         "demonstration without the change (exit)": res.get("demo_without_change_exit"), "demonstration with the change (exit)": res.get("demo_with_change_exit"),
                         "checks": "VERIF_REPO=<scratch worktree with the patch> ./check <ID> --tier quick"},
        "checks": res.get("checks", {}),
        "error": res.get("error"),
    }
    json.dump(meta, open(meta_path, "w"), indent=1)
    print(sid, "valid" if meta["valid"] else "NOT VALID", {p: r["exit"] for p, r in meta["checks"].items()}, res.get("error") or "")

if __name__ == "__main__":
    main()
