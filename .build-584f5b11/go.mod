module verif/sim

go 1.25

require github.com/hack-pad/hackpadfs v0.0.0

replace github.com/hack-pad/hackpadfs => /tmp/orig
