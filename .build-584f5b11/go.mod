module verif/sim

go 1.25

require github.com/hack-pad/hackpadfs v0.0.0

require github.com/hack-pad/safejs v0.1.0 // indirect

replace github.com/hack-pad/hackpadfs => /tmp/orig
