package tar

import verifhook "github.com/hack-pad/hackpadfs/verifhook"

import (
	"sync/atomic"
)

// bufferPool maintains a collection of byte buffers with a maximum size.
// Used to control upper-bound memory usage. It's safe for concurrent use.
type bufferPool struct {
	count   int64
	size    uint64
	buffers chan *buffer
}

type buffer struct {
	Data []byte
	pool *bufferPool
}

func newBufferPool(bufferSize, maxBuffers uint64) *bufferPool {
	if maxBuffers == 0 {
		maxBuffers = 1
	}
	p := &bufferPool{
		size:    bufferSize,
		buffers: make(chan *buffer, maxBuffers),
	}
	p.addBuffer() // start with 1 buffer, ready to go
	return p
}

func (p *bufferPool) addBuffer() {
	for {
		count := atomic.LoadInt64(&p.count)
		if int(count) == cap(p.buffers) {
			return // already at max buffers, no-op
		}
		if atomic.CompareAndSwapInt64(&p.count, count, count+1) {
			break // successfully provisioned slot for new buffer
		}
	}
	buf := &buffer{
		Data: make([]byte, p.size),
		pool: p,
	}
	p.buffers <- buf
	verifhook.

		// Wait acquires and returns a buffer. Be sure to call buffer.Done() to return it to the pool.
		Yield("wake@tar/bufferpool.go:46")
}

func (p *bufferPool) Wait() *buffer {
	select {
	case buf := <-p.buffers:
		return buf
	default:
		p.addBuffer()
		verifTmp1 :=
			// may not always get the new buffer, but looping could allocate more buffers far too quickly
			<-p.buffers
		verifhook.

			// Done returns this buffer to the pool
			Yield("wake@tar/bufferpool.go:57")
		return verifTmp1
	}
}

func (b *buffer) Done() {
	b.pool.buffers <- b
	verifhook.Yield("wake@tar/bufferpool.go:63")
}
