package tar

import verifhook "github.com/hack-pad/hackpadfs/verifhook"

import (
	"context"
	"sync"
)

type pubsub struct {
	mu          sync.RWMutex
	subscribers map[string][]context.CancelFunc
	visited     map[string]bool
	ctx         context.Context
}

// newPubsub creates a new pubsub that unblocks all calls to Wait when ctx is canceled
func newPubsub(ctx context.Context) *pubsub {
	return &pubsub{
		ctx:         ctx,
		subscribers: make(map[string][]context.CancelFunc),
		visited:     make(map[string]bool),
	}
}

func (ps *pubsub) Emit(key string) {
	verifhook.BeforeLock(&ps.mu, "RLock", "lock@tar/pubsub.go:25")
	ps.mu.RLock()
	visited := ps.visited[key]
	ps.mu.RUnlock()
	if visited {
		return
	}
	verifhook.BeforeLock(&ps.mu, "Lock", "lock@tar/pubsub.go:31")
	ps.mu.Lock()
	ps.visited[key] = true
	funcs := ps.subscribers[key]
	ps.subscribers[key] = nil
	ps.mu.Unlock()
	for _, cancel := range funcs {
		cancel()
		verifhook.Yield("signal@tar/pubsub.go:37")
	}
}

func (ps *pubsub) Wait(key string) {
	select {
	case <-ps.ctx.Done():
		return
	default:
	}
	verifhook.BeforeLock(&ps.mu, "Lock", "lock@tar/pubsub.go:48")
	ps.mu.Lock()
	if ps.visited[key] {
		ps.mu.Unlock()
		return
	}
	ctx, cancel := context.WithCancel(ps.ctx)
	ps.subscribers[key] = append(ps.subscribers[key], cancel)
	ps.mu.Unlock()

	select {
	case <-ps.ctx.Done():
		verifhook.Yield("wake@tar/pubsub.go:58")
	case <-ctx.Done():
		verifhook.Yield("wake@tar/pubsub.go:59")
	}
}
