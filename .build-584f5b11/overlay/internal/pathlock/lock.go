// Package pathlock contains Mutex, which locks and unlocks using file paths as keys.
package pathlock

import verifhook "github.com/hack-pad/hackpadfs/verifhook"

import "sync"

// Mutex is a path-based locker. Lock a given path for exclusive access to that path.
type Mutex struct {
	pathLocks sync.Map
}

// New returns a new Mutex
func New() *Mutex {
	return &Mutex{}
}

// Lock blocks access to 'path' until Unlock is called
func (l *Mutex) Lock(path string) {
	var newMu sync.Mutex
	muInterface, _ := l.pathLocks.LoadOrStore(path, &newMu)
	mu := muInterface.(*sync.Mutex)
	verifhook.BeforeLock(

	// Unlock unblocks access to 'path'
	&mu, "Lock", "lock@internal/pathlock/lock.go:21")
	mu.Lock()
}

func (l *Mutex) Unlock(path string) {
	muInterface, _ := l.pathLocks.Load(path)
	mu := muInterface.(*sync.Mutex)
	mu.Unlock()
}
