#!/bin/bash
# selftest.sh determinism [props...] : per-trial event-log hashes must be identical across fresh
# processes, GOMAXPROCS 1/4/16 and worker counts 1/4/16.
set -u
VERIF_DIR="$(cd "$(dirname "$0")" && pwd)"
BUILD="${VERIF_BUILD:-$VERIF_DIR/.build}"
what="${1:-determinism}"; shift || true
case "$what" in
 determinism)
  props="$*"; [ -n "$props" ] || props=$(VERIF_ROLE=driver VERIF_MODE=list "$BUILD/sim.test" -test.run '^$' | tr ' ' '\n' | grep -v '^C20$') # C20 is an enumeration of suite runs (child processes), not a seeded search: no event log to compare
  n="${VERIF_TRIALS:-60}"
  fail=0
  tmp=$(mktemp -d)
  for p in $props; do
    i=0
    for cfg in "1 1" "4 4" "16 16" "16 3" "2 16"; do
      set -- $cfg
      for rep in 1 2; do
        i=$((i+1))
        GOMAXPROCS=$1 VERIF_WORKERS=$2 VERIF_ROLE=driver VERIF_MODE=hashes VERIF_PROP=$p VERIF_TRIALS=$n VERIF_TIER=quick "$BUILD/sim.test" -test.run '^$' > "$tmp/$p.$i" 2>/dev/null
      done
    done
    ok=1
    for j in $(seq 2 $i); do
      if ! cmp -s "$tmp/$p.1" "$tmp/$p.$j"; then ok=0; echo "DETERMINISM FAILURE $p: run 1 vs run $j"; diff "$tmp/$p.1" "$tmp/$p.$j" | head -6; fi
    done
    if [ $ok = 1 ]; then echo "determinism ok: $p ($n trials x $i runs, $(grep -c . "$tmp/$p.1") lines)"; else fail=1; fi
  done
  rm -rf "$tmp"
  exit $fail;;
 *) echo "unknown selftest $what"; exit 2;;
esac
