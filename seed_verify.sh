#!/bin/bash
# seed_verify.sh <seed dir holding patch.diff + demo file> <package dir for the demo, relative to the repo> <demo file name> <property ids to check...>
# Confirms a seeded change independently: applies cleanly, existing suite passes with it, the demonstration
# fails with it and passes without it; then runs the given checks against it. Prints a JSON summary line.
set -u
seed="$(readlink -f "$1")"; pkg="$2"; demo="$3"; shift 3
VERIF_DIR="$(cd "$(dirname "$0")" && pwd)"
wt="/tmp/verif-seedchk-$$"
export GOFLAGS=-mod=mod GOPROXY=off GOSUMDB=off
cleanup() { git -C /repo worktree remove --force "$wt" >/dev/null 2>&1; rm -rf "$wt" "$VERIF_DIR/.build-$(echo "$wt" | md5sum | cut -c1-8)"; }
trap cleanup EXIT
git -C /repo worktree add -q --detach "$wt" HEAD || exit 2
suite() { for i in 1 2 3; do (cd "$wt" && go test -vet=off -count=1 ./... >/tmp/seedchk-suite.$$ 2>&1) && return 0; done; return 1; }
pat=$(grep -ohE '^func (Test[A-Za-z0-9_]+)' "$seed/$demo" | sed 's/^func //' | grep -v '^TestMain$' | paste -sd'|')
rundemo() { (cd "$wt/$pkg" && timeout 300 go test -vet=off -count=1 -run "^($pat)\$" . >/tmp/seedchk-demo.$$ 2>&1); }
case "$demo" in
  *_test.go) cp "$seed/$demo" "$wt/$pkg/zz_seed_demo_test.go";;
  *) echo '{"error":"unsupported demo kind"}'; exit 2;;
esac
rundemo; without=$?
git -C "$wt" apply "$seed/patch.diff" 2>/tmp/seedchk-apply.$$ || { echo "{\"error\":\"patch does not apply: $(head -1 /tmp/seedchk-apply.$$)\"}"; exit 2; }
rundemo; with=$?
rm -f "$wt/$pkg/zz_seed_demo_test.go"
suite; suite_rc=$?
results=""
for p in "$@"; do
  out=$(VERIF_REPO="$wt" "$VERIF_DIR/check" "$p" --tier quick 2>&1); code=$?
  sig=$(echo "$out" | grep -m1 -E '^violation|^regression' | cut -c1-140 | tr '"' "'")
  results="$results\"$p\":{\"exit\":$code,\"first\":\"$sig\"},"
done
echo "{\"seed\":\"$seed\",\"demo_without_change_exit\":$without,\"demo_with_change_exit\":$with,\"suite_with_change_exit\":$suite_rc,\"checks\":{${results%,}}}"
rm -f /tmp/seedchk-*.$$
