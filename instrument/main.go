// verif-instrument rewrites the listed packages of the repository's current working tree with
// scheduling gates and emits a go build -overlay file. The repository is never written.
package main

import (
	"bytes"
	"encoding/json"
	"flag"
	"fmt"
	"go/ast"
	"go/format"
	"go/parser"
	"go/token"
	"os"
	"path/filepath"
	"strings"
)

const hookImport = "github.com/hack-pad/hackpadfs/verifhook"

var pkgs = []string{".", "keyvalue", "keyvalue/blob", "mem", "mount", "cache", "tar", "internal/pathlock"}

type rewriter struct {
	fset    *token.FileSet
	rel     string
	changed bool
	tmpSeq  int
	report  map[string]int
}

func (r *rewriter) label(kind string, pos token.Pos) *ast.BasicLit {
	p := r.fset.Position(pos)
	return &ast.BasicLit{Kind: token.STRING, Value: fmt.Sprintf("%q", fmt.Sprintf("%s@%s:%d", kind, r.rel, p.Line))}
}

func hookCall(name string, args ...ast.Expr) *ast.CallExpr {
	return &ast.CallExpr{Fun: &ast.SelectorExpr{X: ast.NewIdent("verifhook"), Sel: ast.NewIdent(name)}, Args: args}
}

func (r *rewriter) yieldStmt(kind string, pos token.Pos) ast.Stmt {
	r.changed = true
	r.report[kind]++
	return &ast.ExprStmt{X: hookCall("Yield", r.label(kind, pos))}
}

func isRecv(e ast.Expr) bool {
	u, ok := e.(*ast.UnaryExpr)
	return ok && u.Op == token.ARROW
}

// methodCall returns receiver and method name for X.M(args) with len(args)==nargs.
func methodCall(e ast.Expr, nargs int) (ast.Expr, string, *ast.CallExpr) {
	c, ok := e.(*ast.CallExpr)
	if !ok || len(c.Args) != nargs {
		return nil, "", nil
	}
	s, ok := c.Fun.(*ast.SelectorExpr)
	if !ok {
		return nil, "", nil
	}
	return s.X, s.Sel.Name, c
}

// rewriteStmts processes a statement list, returning the new list.
func (r *rewriter) rewriteStmts(list []ast.Stmt) []ast.Stmt {
	var out []ast.Stmt
	for _, st := range list {
		r.rewriteInside(st)
		switch s := st.(type) {
		case *ast.ExprStmt:
			// G1: X.Lock() / X.RLock()
			if x, m, _ := methodCall(s.X, 0); x != nil && (m == "Lock" || m == "RLock") {
				r.changed = true
				r.report["lock"]++
				out = append(out, &ast.ExprStmt{X: hookCall("BeforeLock",
					&ast.UnaryExpr{Op: token.AND, X: x},
					&ast.BasicLit{Kind: token.STRING, Value: fmt.Sprintf("%q", m)},
					r.label("lock", s.Pos()))})
				out = append(out, st)
				continue
			}
			// G3: X.Wait() with no args (WaitGroup), <-ch
			if x, m, _ := methodCall(s.X, 0); x != nil && m == "Wait" {
				out = append(out, st, r.yieldStmt("wake", s.Pos()))
				continue
			}
			// G6: a zero-argument call whose name ends in cancel/done (context.CancelFunc values, WaitGroup.Done,
			// buffer.Done): it may release waiters, so the caller parks right after it and the scheduler decides
			// whether the releaser or the released runs first
			if c, ok := s.X.(*ast.CallExpr); ok && len(c.Args) == 0 {
				name := ""
				switch f := c.Fun.(type) {
				case *ast.Ident:
					name = f.Name
				case *ast.SelectorExpr:
					name = f.Sel.Name
				}
				ln := strings.ToLower(name)
				if strings.HasSuffix(ln, "cancel") || strings.HasSuffix(ln, "done") {
					out = append(out, st, r.yieldStmt("signal", s.Pos()))
					continue
				}
			}
			if isRecv(s.X) {
				out = append(out, st, r.yieldStmt("wake", s.Pos()))
				continue
			}
		case *ast.SendStmt:
			out = append(out, st, r.yieldStmt("wake", s.Pos()))
			continue
		case *ast.AssignStmt:
			if len(s.Rhs) == 1 && isRecv(s.Rhs[0]) {
				out = append(out, st, r.yieldStmt("wake", s.Pos()))
				continue
			}
			// v := pool.Wait()  (blocking call named Wait without args)
			if len(s.Rhs) == 1 {
				if x, m, _ := methodCall(s.Rhs[0], 0); x != nil && m == "Wait" {
					out = append(out, st, r.yieldStmt("wake", s.Pos()))
					continue
				}
			}
		case *ast.ReturnStmt:
			// return <-ch  =>  v := <-ch; Yield; return v
			if len(s.Results) == 1 && isRecv(s.Results[0]) {
				r.tmpSeq++
				tmp := ast.NewIdent(fmt.Sprintf("verifTmp%d", r.tmpSeq))
				out = append(out,
					&ast.AssignStmt{Lhs: []ast.Expr{tmp}, Tok: token.DEFINE, Rhs: []ast.Expr{s.Results[0]}},
					r.yieldStmt("wake", s.Pos()),
					&ast.ReturnStmt{Results: []ast.Expr{tmp}})
				continue
			}
		case *ast.GoStmt:
			// G2: go f(args) => go func(tok uint64){ Start(label, tok); f(args) }(SpawnToken(label))
			r.changed = true
			r.report["go"]++
			lbl := r.label("go", s.Pos())
			tok := ast.NewIdent("verifTok")
			start := &ast.ExprStmt{X: hookCall("Start", lbl, tok)}
			params := &ast.FieldList{List: []*ast.Field{{Names: []*ast.Ident{tok}, Type: ast.NewIdent("uint64")}}}
			var body []ast.Stmt
			if fl, ok := s.Call.Fun.(*ast.FuncLit); ok && len(s.Call.Args) == 0 && (fl.Type.Params == nil || len(fl.Type.Params.List) == 0) && fl.Type.Results == nil {
				body = append([]ast.Stmt{start}, fl.Body.List...)
			} else {
				body = []ast.Stmt{start, &ast.ExprStmt{X: s.Call}}
			}
			s.Call = &ast.CallExpr{
				Fun:  &ast.FuncLit{Type: &ast.FuncType{Params: params}, Body: &ast.BlockStmt{List: body}},
				Args: []ast.Expr{hookCall("SpawnToken", lbl)},
			}
			out = append(out, st)
			continue
		}
		out = append(out, st)
	}
	return out
}

// rewriteInside descends into nested blocks of a statement.
func (r *rewriter) rewriteInside(st ast.Stmt) {
	switch s := st.(type) {
	case *ast.BlockStmt:
		s.List = r.rewriteStmts(s.List)
	case *ast.IfStmt:
		r.rewriteExprFuncs(s.Cond)
		if s.Init != nil {
			r.rewriteInside(s.Init)
		}
		r.rewriteInside(s.Body)
		if s.Else != nil {
			r.rewriteInside(s.Else)
		}
	case *ast.ForStmt:
		r.rewriteInside(s.Body)
	case *ast.RangeStmt:
		r.rewriteInside(s.Body)
	case *ast.SwitchStmt:
		r.rewriteInside(s.Body)
	case *ast.TypeSwitchStmt:
		r.rewriteInside(s.Body)
	case *ast.CaseClause:
		s.Body = r.rewriteStmts(s.Body)
	case *ast.SelectStmt:
		hasDefault := false
		for _, c := range s.Body.List {
			if cc := c.(*ast.CommClause); cc.Comm == nil {
				hasDefault = true
			}
		}
		for _, c := range s.Body.List {
			cc := c.(*ast.CommClause)
			cc.Body = r.rewriteStmts(cc.Body)
			if !hasDefault {
				cc.Body = append([]ast.Stmt{r.yieldStmt("wake", cc.Pos())}, cc.Body...)
			}
		}
	case *ast.LabeledStmt:
		r.rewriteInside(s.Stmt)
	case *ast.ExprStmt:
		r.rewriteExprFuncs(s.X)
	case *ast.AssignStmt:
		for _, e := range s.Rhs {
			r.rewriteExprFuncs(e)
		}
	case *ast.ReturnStmt:
		for _, e := range s.Results {
			r.rewriteExprFuncs(e)
		}
	case *ast.DeferStmt:
		r.rewriteExprFuncs(s.Call)
	case *ast.GoStmt:
		r.rewriteExprFuncs(s.Call)
	case *ast.DeclStmt:
		if gd, ok := s.Decl.(*ast.GenDecl); ok {
			for _, sp := range gd.Specs {
				if vs, ok := sp.(*ast.ValueSpec); ok {
					for _, e := range vs.Values {
						r.rewriteExprFuncs(e)
					}
				}
			}
		}
	}
}

// rewriteExprFuncs finds function literals inside an expression and rewrites their bodies; it also
// applies G4 (X.Range(f) -> verifhook.RangeMap(&X, label, f)).
func (r *rewriter) rewriteExprFuncs(e ast.Expr) {
	if e == nil {
		return
	}
	ast.Inspect(e, func(n ast.Node) bool {
		switch x := n.(type) {
		case *ast.FuncLit:
			x.Body.List = r.rewriteStmts(x.Body.List)
			return false
		case *ast.CallExpr:
			if recv, m, c := methodCall(x, 1); recv != nil && m == "Range" {
				if id, ok := recv.(*ast.Ident); !ok || id.Name != "verifhook" {
					r.changed = true
					r.report["range"]++
					c.Fun = &ast.SelectorExpr{X: ast.NewIdent("verifhook"), Sel: ast.NewIdent("RangeMap")}
					c.Args = []ast.Expr{&ast.UnaryExpr{Op: token.AND, X: recv}, r.label("range", x.Pos()), c.Args[0]}
				}
			}
		}
		return true
	})
}

// knobs: turn tar's buffer-size constants and cache's copy-buffer size into run-time knobs.
func (r *rewriter) knobs(f *ast.File) {
	knobNames := map[string]bool{"bigBufMemory": true, "smallBufMemory": true, "maxMemory": true}
	ast.Inspect(f, func(n ast.Node) bool {
		fd, ok := n.(*ast.FuncDecl)
		if !ok || fd.Body == nil {
			return true
		}
		for _, st := range fd.Body.List {
			ds, ok := st.(*ast.DeclStmt)
			if !ok {
				continue
			}
			gd, ok := ds.Decl.(*ast.GenDecl)
			if !ok || gd.Tok != token.CONST {
				continue
			}
			found := 0
			simple := true
			for _, sp := range gd.Specs {
				vs := sp.(*ast.ValueSpec)
				if len(vs.Names) != 1 || len(vs.Values) != 1 || vs.Type != nil {
					simple = false
				}
				if len(vs.Names) == 1 && knobNames[vs.Names[0].Name] {
					found++
				}
			}
			if found != len(knobNames) || !simple {
				continue
			}
			gd.Tok = token.VAR
			for _, sp := range gd.Specs {
				vs := sp.(*ast.ValueSpec)
				val := vs.Values[0]
				if knobNames[vs.Names[0].Name] {
					val = hookCall("Knob", &ast.BasicLit{Kind: token.STRING, Value: fmt.Sprintf("%q", vs.Names[0].Name)},
						&ast.CallExpr{Fun: ast.NewIdent("uint64"), Args: []ast.Expr{val}})
				}
				vs.Values[0] = &ast.CallExpr{Fun: ast.NewIdent("uint64"), Args: []ast.Expr{val}}
			}
			r.changed = true
			r.report["knob-tar"]++
		}
		// cache: buf := make([]byte, 512)
		if fd.Name.Name == "copyFile" {
			ast.Inspect(fd.Body, func(n ast.Node) bool {
				as, ok := n.(*ast.AssignStmt)
				if !ok || len(as.Rhs) != 1 {
					return true
				}
				c, ok := as.Rhs[0].(*ast.CallExpr)
				if !ok || len(c.Args) != 2 {
					return true
				}
				if id, ok := c.Fun.(*ast.Ident); !ok || id.Name != "make" {
					return true
				}
				if lit, ok := c.Args[1].(*ast.BasicLit); ok && lit.Kind == token.INT {
					c.Args[1] = hookCall("KnobInt", &ast.BasicLit{Kind: token.STRING, Value: `"cacheCopyBuf"`}, lit)
					r.changed = true
					r.report["knob-cache"]++
				}
				return true
			})
		}
		return true
	})
}

// pools applies G7: the type sync.Pool becomes verifhook.Pool (a deterministic LIFO free list).
func (r *rewriter) pools(f *ast.File) {
	n := 0
	ast.Inspect(f, func(node ast.Node) bool {
		if sel, ok := node.(*ast.SelectorExpr); ok && sel.Sel.Name == "Pool" {
			if id, ok := sel.X.(*ast.Ident); ok && id.Name == "sync" {
				sel.X = ast.NewIdent("verifhook")
				n++
			}
		}
		return true
	})
	if n == 0 {
		return
	}
	r.changed = true
	r.report["pool"] += n
	// keep the sync import used whatever else the file does with it
	f.Decls = append(f.Decls, &ast.GenDecl{Tok: token.VAR, Specs: []ast.Spec{&ast.ValueSpec{
		Names: []*ast.Ident{ast.NewIdent("_")},
		Type:  &ast.SelectorExpr{X: ast.NewIdent("sync"), Sel: ast.NewIdent("Mutex")},
	}}})
}

func addImport(f *ast.File) {
	for _, im := range f.Imports {
		if strings.Trim(im.Path.Value, `"`) == hookImport {
			return
		}
	}
	spec := &ast.ImportSpec{Name: ast.NewIdent("verifhook"), Path: &ast.BasicLit{Kind: token.STRING, Value: fmt.Sprintf("%q", hookImport)}}
	decl := &ast.GenDecl{Tok: token.IMPORT, Specs: []ast.Spec{spec}}
	f.Decls = append([]ast.Decl{decl}, f.Decls...)
	f.Imports = append(f.Imports, spec)
}

func main() {
	repo := flag.String("repo", "/repo", "repository working tree")
	out := flag.String("out", "", "output directory for rewritten files")
	files := flag.String("files", "", "directory holding the verif-tagged files to add")
	flag.Parse()
	if *out == "" || *files == "" {
		fmt.Fprintln(os.Stderr, "usage: verif-instrument -repo DIR -out DIR -files DIR")
		os.Exit(2)
	}
	overlay := map[string]string{}
	report := map[string]int{}
	os.RemoveAll(*out)
	for _, pkg := range pkgs {
		dir := filepath.Join(*repo, pkg)
		ents, err := os.ReadDir(dir)
		if err != nil {
			fmt.Fprintf(os.Stderr, "instrument: %v\n", err)
			os.Exit(2)
		}
		for _, e := range ents {
			name := e.Name()
			if e.IsDir() || !strings.HasSuffix(name, ".go") || strings.HasSuffix(name, "_test.go") {
				continue
			}
			src := filepath.Join(dir, name)
			fset := token.NewFileSet()
			f, err := parser.ParseFile(fset, src, nil, parser.ParseComments)
			if err != nil {
				// leave unparsable files to the compiler: it reports the real error
				continue
			}
			r := &rewriter{fset: fset, rel: filepath.ToSlash(filepath.Join(pkg, name)), report: report}
			for _, d := range f.Decls {
				switch x := d.(type) {
				case *ast.FuncDecl:
					if x.Body != nil {
						x.Body.List = r.rewriteStmts(x.Body.List)
					}
				case *ast.GenDecl:
					for _, sp := range x.Specs {
						if vs, ok := sp.(*ast.ValueSpec); ok {
							for _, v := range vs.Values {
								r.rewriteExprFuncs(v)
							}
						}
					}
				}
			}
			if pkg == "tar" || pkg == "cache" {
				r.knobs(f)
			}
			r.pools(f)
			if !r.changed {
				continue
			}
			addImport(f)
			var buf bytes.Buffer
			if err := format.Node(&buf, fset, f); err != nil {
				fmt.Fprintf(os.Stderr, "instrument: format %s: %v\n", src, err)
				os.Exit(2)
			}
			dst := filepath.Join(*out, pkg, name)
			os.MkdirAll(filepath.Dir(dst), 0755)
			if err := os.WriteFile(dst, buf.Bytes(), 0644); err != nil {
				fmt.Fprintf(os.Stderr, "instrument: %v\n", err)
				os.Exit(2)
			}
			overlay[src] = dst
		}
	}
	// added files
	add := map[string]string{
		"verifhook/hook.go":   filepath.Join(*repo, "verifhook", "hook.go"),
		"verifmt/mt.go":       filepath.Join(*repo, "verifmt", "mt.go"),
		"mem_export_verif.go": filepath.Join(*repo, "mem", "export_verif.go"),
		"tar_export_verif.go": filepath.Join(*repo, "tar", "export_verif.go"),
	}
	for src, dst := range add {
		abs, _ := filepath.Abs(filepath.Join(*files, src))
		overlay[dst] = abs
	}
	b, _ := json.MarshalIndent(map[string]interface{}{"Replace": overlay}, "", " ")
	if err := os.WriteFile(filepath.Join(*out, "overlay.json"), b, 0644); err != nil {
		fmt.Fprintf(os.Stderr, "instrument: %v\n", err)
		os.Exit(2)
	}
	rb, _ := json.Marshal(report)
	os.WriteFile(filepath.Join(*out, "report.json"), rb, 0644)
}
