//go:build verif

package mem

import "github.com/hack-pad/hackpadfs/keyvalue"

// NewStoreForVerif returns the package's real in-memory transaction store.
func NewStoreForVerif() keyvalue.TransactionStore { return newStore() }

// NewFSWrapStore builds the real mem.FS on the real store behind the harness's wrapper.
func NewFSWrapStore(wrap func(keyvalue.TransactionStore) keyvalue.Store) (*FS, error) {
	kv, err := keyvalue.NewFS(wrap(newStore()))
	return &FS{kv}, err
}
