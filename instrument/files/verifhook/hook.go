//go:build verif

// Package verifhook is added to the module by the verification overlay (build tag verif). It holds
// the hook variables the instrumented library calls; all are no-ops unless a simulator sets them.
package verifhook

import (
	"sort"
	"sync"
)

var (
	// YieldHook is called at scheduling points (goroutine starts, wake-ups).
	YieldHook func(label string)
	// SpawnHook is called by the parent just before a go statement; the token travels into the
	// new goroutine so that it gets a schedule-independent identity.
	SpawnHook func(label string) uint64
	// StartHook is the first thing a library goroutine does.
	StartHook func(label string, token uint64)
	// LockHook is called before every Lock/RLock with a pointer to the mutex (or to the pointer variable holding it).
	LockHook func(mu interface{}, kind, label string)
	// OrderHook returns a permutation for n items ranged over at label (nil = sorted order).
	OrderHook func(label string, n int) []int
	// KnobHook overrides tuning constants.
	KnobHook func(name string, def uint64) uint64
)

// Yield is a scheduling point.
func Yield(label string) {
	if h := YieldHook; h != nil {
		h(label)
	}
}

// SpawnToken is evaluated by the parent goroutine as the argument of an instrumented go statement.
func SpawnToken(label string) uint64 {
	if h := SpawnHook; h != nil {
		return h(label)
	}
	return 0
}

// Start is the first statement of an instrumented goroutine.
func Start(label string, token uint64) {
	if h := StartHook; h != nil {
		h(label, token)
	}
}

// BeforeLock is a scheduling point that is only passable when the mutex is free.
func BeforeLock(mu interface{}, kind, label string) {
	if h := LockHook; h != nil {
		h(mu, kind, label)
	}
}

// Knob returns the value of a tuning constant.
func Knob(name string, def uint64) uint64 {
	if h := KnobHook; h != nil {
		return h(name, def)
	}
	return def
}

// KnobInt is Knob for int-typed sites.
func KnobInt(name string, def int) int { return int(Knob(name, uint64(def))) }

type ranger interface {
	Range(f func(key, value interface{}) bool)
}

// RangeMap iterates like m.Range(f) but in an order the simulator controls: entries are
// snapshotted, sorted by key (when keys are strings), permuted by OrderHook, then fed to f,
// honouring f's early-exit result.
func RangeMap(m ranger, label string, f func(key, value interface{}) bool) {
	if OrderHook == nil {
		m.Range(f)
		return
	}
	type kv struct{ k, v interface{} }
	var all []kv
	m.Range(func(k, v interface{}) bool {
		all = append(all, kv{k, v})
		return true
	})
	sort.SliceStable(all, func(i, j int) bool {
		a, ok1 := all[i].k.(string)
		b, ok2 := all[j].k.(string)
		if ok1 && ok2 {
			return a < b
		}
		return false
	})
	perm := OrderHook(label, len(all))
	for i := range all {
		e := all[i]
		if perm != nil {
			e = all[perm[i]]
		}
		if !f(e.k, e.v) {
			return
		}
	}
}

// Pool stands in for sync.Pool in the instrumented library (rule G7): sync.Pool hands objects back
// depending on which P a goroutine happens to run on and on garbage collections, which a simulator
// cannot decide. This one is a plain LIFO free list: a released object is the next one handed out,
// which is also the order that exposes use-after-release soonest.
type Pool struct {
	New   func() interface{}
	mu    sync.Mutex
	items []interface{}
}

// Get hands out the object released last, or a new one.
func (p *Pool) Get() interface{} {
	p.mu.Lock()
	defer p.mu.Unlock()
	if n := len(p.items); n > 0 {
		x := p.items[n-1]
		p.items = p.items[:n-1]
		return x
	}
	if p.New != nil {
		return p.New()
	}
	return nil
}

// Put releases an object.
func (p *Pool) Put(x interface{}) {
	p.mu.Lock()
	p.items = append(p.items, x)
	p.mu.Unlock()
}
