//go:build verif

// Package verifmt re-exports internal/mounttest for the verification harness (overlay only).
package verifmt

import (
	"github.com/hack-pad/hackpadfs"
	"github.com/hack-pad/hackpadfs/internal/mounttest"
	"github.com/hack-pad/hackpadfs/mount"
)

// NewFS wraps a mount.FS with the method set fstest uses.
func NewFS(fs *mount.FS) hackpadfs.FS { return mounttest.NewFS(fs) }
