//go:build verif

package tar

import "context"

// PubsubForVerif exposes the unexported pubsub so its wake-up guarantee can be driven directly.
type PubsubForVerif struct{ ps *pubsub }

func NewPubsubForVerif(ctx context.Context) *PubsubForVerif { return &PubsubForVerif{newPubsub(ctx)} }
func (p *PubsubForVerif) Emit(key string)                   { p.ps.Emit(key) }
func (p *PubsubForVerif) Wait(key string)                   { p.ps.Wait(key) }

// BufferPoolForVerif exposes the unexported bufferPool.
type BufferPoolForVerif struct{ p *bufferPool }

type BufferForVerif struct{ b *buffer }

func NewBufferPoolForVerif(size, max uint64) *BufferPoolForVerif {
	return &BufferPoolForVerif{newBufferPool(size, max)}
}
func (p *BufferPoolForVerif) Wait() *BufferForVerif { return &BufferForVerif{p.p.Wait()} }
func (b *BufferForVerif) Done()                     { b.b.Done() }
func (b *BufferForVerif) Len() int                  { return len(b.b.Data) }
func (p *BufferPoolForVerif) Allocated() int64      { return p.p.count }
