#!/usr/bin/env python3
"""Regenerates /verif/MANIFEST.json from the table below (kept in one place so it stays valid)."""
import json, os

TECH_SEQ = "deterministic simulation, sequential fault-free configuration: seeded history search from one choice stream, step-wise differential/invariant oracle, generic shrinking, exact replay"
TECH_FAULT = "deterministic simulation with fault injection: seeded search over operation histories and fault positions at the store/FS/stream seams, step-wise oracle, shrinking, exact replay"
TECH_SCHED = "deterministic simulation: seeded scheduler over gates inserted at locks, goroutine starts, channel wake-ups and seam calls (synctest bubble), fault injection at the seams, history/invariant oracle, shrinking, exact replay"

# id -> (engine, category, level text, level note, technique, design ref)
CHECKS = {
 "C01": ("fsdiff", "exploration", "seeded search over namespace histories on mem.FS and keyvalue.FS (sharing and copying SimStore), judged after every step against os.FS on a scratch directory: success, returned data, full tree incl. closure probing and Chtimes-pinned mtimes", "samples histories (<=24 steps, 3-name alphabet, depth 3); reference = Go os package on this sandbox's Linux kernel as root; no schedule or fault dimension (those are C14/C15)", TECH_SEQ),
 "C02": ("handlediff", "exploration", "seeded search over interleavings of handle operations of 1-3 handles on one file, judged call by call against os.File: n, bytes, normalised EOF, offsets of all handles, file bytes", "single goroutine as the property states; multi-handle coherence judged on mem.FS and the sharing store only; reference = os.File on Linux", TECH_SEQ + " (handles are the simulated clients, interleaved at operation granularity)"),
 "C03": ("fsdiff/invariants", "exploration", "seeded search over histories incl. root removal, rename into own subtree, creation below files, on mem, keyvalue+SimStore, mount and Sub stacks; tree invariants evaluated over the closure of candidate paths and over the store's key set after every mutating step; unbounded recursion is caught by worker crash attribution", "samples histories; listing order permuted from the choice stream; termination judged by the per-trial watchdog and stack-overflow attribution", TECH_SEQ),
 "C04": ("fsdiff/name-fuzz", "exploration", "seeded search: invalid names (ValidPath boundary mutations) in every argument position of 21 helpers on twelve layer stacks inside ordinary histories; error must match ErrInvalid and every participating FS must be unchanged; converse checked against an os twin with odd but valid names", "no schedule or fault dimension (weakest fit for the technique, see DESIGN 2.1); 'no OS path reaches the kernel' is judged through its effect (scratch directory unchanged)", TECH_SEQ),
 "C05": ("fsdiff/layer-stacks", "exploration", "seeded search over histories on twelve layer stacks mirrored on an os twin; every failing call judged for concrete error type, path fields in the caller's namespace and the sentinel the os error matches", "samples histories; mount points as operands of Remove/Rename are configuration and not compared; Op strings are not compared", TECH_SEQ),
 "C06": ("mountsim", "exploration", "three drawn modes: routing (0-4 mount points incl. nested and look-alike prefixes, mount-table iteration order redrawn on every lookup, every op compared with the same op applied directly to the constituent a ten-line spec selects on twin constituents, all constituents compared; AddMount validation and MountPoints()), cross-mount rename of a regular file with faults on either constituent (create, k-th write after a prefix, lossy close, source removal), and 2-4 concurrent AddMount calls as tasks under the seeded scheduler", "mount points and their ancestors as operands of Remove/Rename are outside the routing comparison (KF-C03-001 / configuration); cross-mount rename of directories is ErrNotImplemented and accepted as such", TECH_SCHED),
 "C07": ("fsdiff/sub-twin", "exploration", "seeded search: two identical instances driven by the same history, op(Sub(A,dir),name) against op(B,dir/name), comparing outcome, data, error path and full snapshots", "samples histories; dir is an existing or missing directory, never a regular file; OS symlinks excluded as in the statement", TECH_SEQ),
 "C08": ("capsim", "exploration", "seeded search over (helper, exposed-interface subset, start state, fault position): each package helper on a FaultFS exposing a drawn subset of exactly the interfaces its dispatch inspects (70 generated wrapper types over real mem.FS / os.FS), against a twin exposing all of them; in half of the trials one primitive call inside the fallback path fails", "samples subsets and fault positions (all 2^k subsets per helper are reachable by the draw, coverage is counted, not enumerated); what the caller does with a handle returned by OpenFile/Create is not part of the helper", TECH_FAULT),
 "C10": ("cachesim", "exploration", "seeded search over source trees (sizes around the copy buffer), RetainData policies, cache-store kinds (full mem.FS / only OpenFile+Mkdir), copy-buffer knob values and access sequences on cache.ReadOnlyFS, mirrored call by call on handles of the source; plus the source call log for 'not read again'", "fault-free configuration of the C11 simulator (legal odd read shapes only); Seek is compared on regular files only; page order of directory reads is not compared, page sizes and the final multiset are; mtimes are not compared", TECH_SEQ + " with buggified read shapes and a knob for the copy buffer"),
 "C11": ("cachesim", "exploration", "fault mode: seeded search over the position of one fault among all source and cache-store calls of a fill (incl. writes accepted in part and a close that loses the tail), followed by fault-free re-opens; concurrent mode: 2-4 first opens of one name as tasks under the seeded scheduler with the copy paused at every chunk, gates at the per-path lock; judged: error reported, complete-or-error afterwards, never two copies of one name in progress, no deadlock", "samples fault positions and schedules; closing read handles and the final rewind of the source handle are not required to fail the open", TECH_SCHED),
 "C12": ("tarsim", "exploration", "seeded search over well-formed archives (entry order, spellings, permission bits, sizes around knob buffer thresholds, pool sizes 1-3, escaping names), destination kinds and schedules of tar.ReaderFS's own goroutines (reader, one background writer per directory entry and small file, join goroutine), which run as tasks of the seeded scheduler; after Done() the tar FS and the destination are compared with a 25-line logical-tree spec", "buffer sizes are knobs (small 512..2048, big 1024..4096) so that the big-file foreground path and pool exhaustion are reached with kilobyte archives; the shipped 150 KiB / 4 MiB constants are not exercised by this check; modes of implicit ancestor directories are not judged", TECH_SCHED),
 "C13": ("tarsim", "exploration", "seeded search over archives, chunked delivery, 1-4 opener tasks with drawn delays, one fault (truncation at a 512-byte block, reader error at an offset, flipped header byte, cancellation after a drawn number of steps, failing destination create/write/close/mkdir/chmod) and schedules; judged: a successful Open delivers exactly the entry's bytes, every Open and Done() has returned at quiescence (deadlock verdict otherwise); the unexported pubsub and buffer pool are also driven directly through an overlay export shim", "an io.Reader that never returns is outside the property (the simulated stream always answers); flipped data bytes are not generated (tar has no data checksum); gates after cancel()/Done() calls let the scheduler run the released waiters before the releaser continues", TECH_SCHED),
 "C14": ("storesim", "exploration", "seeded search over operation histories and single store faults (position over all store call indices; kinds: Get, rejected Set, Set applied but reported failed, lazy Data(), lazy ReadDirNames(), Transaction()) on keyvalue.FS over a plain SimStore (serial fallback) and over the real in-memory TransactionStore behind a fault-injecting wrapper, with a fault-free twin in lockstep", "one fault per trial (the property speaks of a single failing call); after the fault the twin is no longer compared, the look-up-agrees-with-store invariant keeps running; runs as a single scheduler task with lock gates so a store left locked is a deadlock verdict", TECH_FAULT),
 "C15": ("concsim", "exploration", "seeded search over small concurrent programs (2-3 tasks x 1-3 operations, three families) and over their interleavings on the real mem.FS: tasks are real goroutines parked at gates (transaction open = lock gate on the real store mutex, every Get/Set/Commit/Abort, every lazy record getter, every blob and FS-level mutex acquisition); judged against the set of outcomes of all program-order-preserving sequential executions of the same code; plus an auxiliary free-running pass under the race detector, which is runtime monitoring and labelled so", "operations = single methods of the FS or of a handle (helpers that fall back to several primitive calls are sequences of operations); serialisability, not real-time linearizability, as the statement says; interleavings are explored at gate granularity: two plain memory accesses racing between gates are only visible to the auxiliary -race pass; sampled schedules (3 policies), not all", TECH_SCHED + "; oracle = sequential re-execution of the same code in every program-order-preserving order"),
 "C16": ("fsdiff/listing", "exploration", "seeded search over directory sizes, stacks and page-size sequences; by-name listing and paged handle reads judged for completeness, duplicates, order, Info-vs-Stat agreement and EOF rules; in a third of the SimStore trials one store call of a page read fails (the failed page may deliver nothing, the listing, if it reaches its end, is still complete and duplicate-free)", "directories are not mutated between pages; mem listing order permuted from the choice stream", TECH_SEQ),
 "C18": ("txnsim", "exploration", "seeded search over transaction call sequences and endings on the real in-memory store's transactions and on the serial fallback over a SimStore with injected Get/Set faults, judged against a map model (result count, order, op ids, values, errors) and by opening, reading and committing a fresh transaction after every ending; plus 2-3 concurrent transactions on the real in-memory store as tasks under the seeded scheduler, judged for isolation (a third of them opened read-only; half of the serial-fallback trials over a store that ignores the context it is handed)", "the store mutex is never modelled: the scheduler probes it with TryLock, so a lock that is taken later, earlier or not at all changes which interleavings are explored; a store left locked is a deadlock verdict; a double unlock kills the worker process and is attributed to the trial by the driver; Commit twice is not generated", TECH_SCHED),
 "C19": ("blobsim", "exploration", "seeded search over call sequences on blob.Bytes (and on everything derived: views of views, Set from an own view) through the dispatch functions, judged after every call against a []byte model with aliasing; runs as the single task of the scheduler with lock gates on so that re-entering the blob mutex is a deterministic deadlock verdict; the same sequences run against idbblob under node (GOOS=js GOARCH=wasm)", "views are dropped from the comparison when their root is resized (whether they still alias is implementation specific); a Set whose source does not fit may copy what fits or be refused; for the typed-array blob an error for out-of-range arguments is optional as stated; Set/Grow/Truncate dispatch fallbacks for third-party blobs lacking the method are not judged (DESIGN section 5)", TECH_SCHED + " (single task; the schedule dimension is the lock re-entry check)"),
 "C17": ("handlediff/closed+unlink", "exploration", "seeded search over post-Close call orders on every handle kind of seven stacks, sibling-handle independence and unlink/rename-then-write histories, judged against os.File and the os twin's set of names; empty and nil buffers after Close; one injected store fault in handle operations after the unlink (the call may fail, the name stays gone)", "single goroutine; reference = os.File on Linux", TECH_SEQ),
 "C20": ("deviants", "fault_enumeration", "enumeration of a fixed catalogue of 72 single-deviation wrappers around mem.FS (the simulator's fault-injecting FS wrapper in silent mode: operation does nothing / applied twice / entry left behind or missing / wrong permission bits, size, bytes, kind, name, mtime / wrong error kind / wrong error path / EOF early or missing / correct alone but EBUSY while another call is in flight) plus five references (mem.FS, os.FS, the wrapper without deviation, a wrapper reporting error paths below a prefix run with AllowErrPathPrefix, a wrapper reporting modification times in UTC; references also run in another time zone); each runs the full fstest.FS and fstest.File suites at -test.parallel 1 and 16 x GOMAXPROCS 1 and 16 (thorough: 1, 2, 4, 16), 2 (thorough: 5) times each; references must pass, every deviant must fail, all runs of one entry must agree", "not a simulation of the library: the 'prove sensitivity' step of the technique applied to the conformance suite (DESIGN 2.1); the catalogue samples single deviations that some scenario exercises; built and run with the repository's default toolchain; both tiers run the whole catalogue", "fault seeding: enumerated silent-fault deviants of the simulator's FS wrapper run against the conformance suite"),
}

NOT_APPLICABLE = {
 "C09": "pure, stateless string mapping (root chain, volume name, GOOS convention, one string): no schedule, clock, fault, interleaving or state to simulate; its only I/O-facing clause (OS errors re-expressed in the caller's namespace under Sub roots) is exercised inside C05 on os.FS under 1 and 3 Sub roots",
}

# properties whose engines are not built yet are listed as not claimed until they are
ALL = ["C%02d" % i for i in range(1, 21)]

def main():
    here = os.path.dirname(os.path.abspath(__file__))
    checks = []
    for pid in ALL:
        if pid not in CHECKS:
            continue
        eng, cat, text, note, tech = CHECKS[pid]
        checks.append({
            "property_id": pid,
            "quick_cmd": "./check %s --tier quick" % pid,
            "thorough_cmd": "./check %s --tier thorough" % pid,
            "evidence_file": "/verif/evidence/%s.json" % pid,
            "replay_cmd_template": "./check %s --replay {path}" % pid,
            "engine": eng,
            "level_claimed": {"category": cat, "text": text, "design_ref": "DESIGN.md section 4, %s" % pid},
            "level_note": note,
            "technique": tech,
        })
    na = []
    for pid in ALL:
        if pid in CHECKS:
            continue
        na.append({"property_id": pid, "reason": NOT_APPLICABLE.get(pid, "engine not built yet in this round; not claimed until its check exists (see DESIGN.md section 4 for the planned design)")})
    engines = {}
    for pid, v in CHECKS.items():
        engines.setdefault(v[0], []).append(pid)
    m = {
        "version": 1,
        "setup_cmd": "./check build",
        "hooks": {
            "guard": "verif",
            "enable": "build-time overlay, nothing is committed into /repo: instrument/main.go rewrites the current /repo working tree into .build/overlay (gates before Lock/RLock, at goroutine starts, after channel wake-ups; sync.Map.Range behind an order seam; tar/cache buffer sizes as knobs) and adds verif-tagged files (verifhook package, mem/tar export shims); the harness is built with `go1.26.8 test -c -tags verif -overlay .build/overlay/overlay.json`",
            "baseline_off_cmd": "cd /repo && go test -mod=mod -json -vet=off -count=1 -timeout 25m ./...",
            "source_commits": [],
            "add_only": True,
        },
        "engines": [{"name": n, "path": "sim/", "serves_properties": sorted(p), "kind_free_text": "Go test binary (driver + worker processes), see DESIGN.md section 3"} for n, p in sorted(engines.items())],
        "checks": checks,
        "not_applicable": na,
        "notes": "Exit codes: 0 held (KNOWN-FINDING lines possible), 1 VIOLATION line(s) with verified replay, 2 infrastructure trouble (never a verdict). VERIF_SEED selects the base seed. known_findings.json lists open findings (suppressed by signature, probes re-run on every check) and fixed ones (regression probes).",
    }
    with open(os.path.join(here, "MANIFEST.json"), "w") as f:
        json.dump(m, f, indent=1)
        f.write("\n")

if __name__ == "__main__":
    main()
